//go:build verif

package home

import (
	"bytes"
	"fmt"
	"os"
	"path/filepath"
	"runtime/debug"
	"sort"
	"strconv"
	"strings"
	"testing"

	"github.com/AdguardTeam/AdGuardHome/internal/configmigrate"
	"github.com/AdguardTeam/AdGuardHome/internal/verifkit"
	yaml "gopkg.in/yaml.v3"
)

// Monitor for C13, part "load": the acceptance clause.  Documents that are
// valid under their own schema (the repository's golden files for every
// version, unchanged or with unknown extra keys) are placed in a scratch
// working directory as AdGuardHome.yaml and loaded with the real loader
// (parseConfig: read file, upgrade, write back, decode into the configuration
// type, validate).  The file on disk is observed before and after.

const c13LoadFilePath = "/verif-c13/local-filter.txt"

type c13LoadDoc struct {
	Name    string
	Variant string
	Body    []byte
}

// c13LoadDefaults is the YAML form of the pristine default configuration, used
// to reset the global between documents.
var c13LoadDefaults []byte

func c13LoadReset() error {
	config = &configuration{}
	return yaml.Unmarshal(c13LoadDefaults, config)
}

// c13LoadSentinel adds unknown keys at the top level, inside every mapping
// section and inside the items of every list of mappings (two levels deep).
func c13LoadAddExtra(v any, depth int, scalar bool) {
	var val any = map[string]any{"keep": []any{1, "two", map[string]any{"three": 3.5}}, "flag": true}
	if scalar {
		val = "0123"
	}
	switch c := v.(type) {
	case map[string]any:
		if depth > 0 {
			for _, e := range c {
				c13LoadAddExtra(e, depth-1, scalar)
			}
		}
		c["verif_unknown_key"] = val
	case []any:
		for _, e := range c {
			if _, isMap := e.(map[string]any); isMap {
				c13LoadAddExtra(e, depth, scalar)
			}
		}
	}
}

// c13LoadSubst are replacements of setting values by other values that are
// beyond doubt valid for the schema versions that had the setting.  A
// replacement is applied only where the key exists with a value of the same
// type.  Keys with a "dns." prefix are looked up in dns and coredns.
var c13LoadSubst = []map[string]any{{
	"bind_host": "::", "dns.bind_host": "::1", "bind_port": 8080, "web_session_ttl": 1,
	"dns.statistics_interval": 0, "dns.querylog_interval": 1, "rlimit_nofile": 0,
	"dns.resolve_clients": false, "dns.safesearch_enabled": true, "dns.all_servers": true,
	"debug_pprof": false, "verbose": false,
}, {
	"bind_host": "0.0.0.0", "dns.bind_host": "0.0.0.0", "bind_port": 80, "web_session_ttl": 8760,
	"dns.statistics_interval": 90, "dns.querylog_interval": 90, "rlimit_nofile": 65536,
	"dns.resolve_clients": true, "dns.safesearch_enabled": false, "dns.fastest_addr": true,
	"dns.edns_client_subnet": true, "dns.querylog_enabled": false, "log_max_age": 30,
}}

func c13LoadSubstitute(tree map[string]any, subst map[string]any) (n int) {
	set := func(m map[string]any, k string, v any) {
		cur, ok := m[k]
		if !ok || cur == nil || fmt.Sprintf("%T", cur) != fmt.Sprintf("%T", v) {
			return
		}
		m[k] = v
		n++
	}
	for k, v := range subst {
		if sub, isDNS := strings.CutPrefix(k, "dns."); isDNS {
			for _, sect := range []string{"dns", "coredns"} {
				if m, ok := tree[sect].(map[string]any); ok {
					set(m, sub, v)
				}
			}
			continue
		}
		set(tree, k, v)
	}
	return n
}

func c13LoadDocs(rep *verifkit.Report) (docs []c13LoadDoc) {
	root := filepath.Join("..", "configmigrate", "testdata", "TestMigrateConfig_Migrate")
	ents, err := os.ReadDir(root)
	if err != nil {
		rep.Inconcl("cannot read the repository goldens: " + err.Error())
		return nil
	}
	var names []string
	for _, e := range ents {
		if e.IsDir() {
			names = append(names, e.Name())
		}
	}
	sort.Slice(names, func(i, j int) bool {
		a, _ := strconv.Atoi(strings.TrimPrefix(names[i], "v"))
		b, _ := strconv.Atoi(strings.TrimPrefix(names[j], "v"))
		return a < b
	})
	for _, n := range names {
		for _, f := range []string{"input.yml", "output.yml"} {
			b, rerr := os.ReadFile(filepath.Join(root, n, f))
			if rerr != nil {
				continue
			}
			b = bytes.ReplaceAll(b, []byte("USERFILTERSPATH"), []byte("/verif-c13/data/userfilters/*"))
			b = bytes.ReplaceAll(b, []byte("FILEPATH"), []byte(c13LoadFilePath))
			name := "golden:" + n + "/" + f
			docs = append(docs, c13LoadDoc{Name: name, Variant: "unchanged", Body: b})
			rep.Event("golden_documents_loaded")
			for vi, subst := range c13LoadSubst {
				var tree map[string]any
				if yaml.Unmarshal(b, &tree) != nil || tree == nil {
					continue
				}
				if c13LoadSubstitute(tree, subst) == 0 {
					continue
				}
				eb, merr := yaml.Marshal(tree)
				if merr != nil {
					continue
				}
				docs = append(docs, c13LoadDoc{Name: name, Variant: fmt.Sprintf("valid-values-%c", 'A'+vi), Body: eb})
			}
			for _, variant := range []string{"extra-keys-structured", "extra-keys-scalar"} {
				var tree map[string]any
				if yaml.Unmarshal(b, &tree) != nil || tree == nil {
					continue
				}
				c13LoadAddExtra(tree, 2, variant == "extra-keys-scalar")
				eb, merr := yaml.Marshal(tree)
				if merr != nil {
					continue
				}
				docs = append(docs, c13LoadDoc{Name: name, Variant: variant, Body: eb})
			}
		}
	}
	return docs
}

type c13LoadOutcome struct {
	Err      error
	Panicked bool
	PanicVal string
	Stack    string
}

// c13LoadRun resets the global configuration and runs the real loader on the
// file in the scratch directory.
func c13LoadRun() (o c13LoadOutcome) {
	defer func() {
		if r := recover(); r != nil {
			o.Panicked = true
			o.PanicVal = fmt.Sprint(r)
			o.Stack = string(debug.Stack())
		}
	}()
	if err := c13LoadReset(); err != nil {
		o.Err = fmt.Errorf("verif: resetting defaults: %w", err)
		return o
	}
	o.Err = parseConfig()
	return o
}

func c13LoadHead(b []byte) string {
	if len(b) > 9000 {
		return string(b[:9000]) + "\n...(truncated)"
	}
	return string(b)
}

func c13LoadVersion(b []byte) any {
	var tree map[string]any
	if yaml.Unmarshal(b, &tree) != nil {
		return "undecodable"
	}
	return tree["schema_version"]
}

func TestVerifC13Load(t *testing.T) {
	rep := verifkit.New("C13", "load",
		"case = one repository golden document of some schema version (unchanged, or with unknown extra keys at the top level, in every section and in list items) stored as the configuration file and loaded by parseConfig; non-trivial = the document is of an historical version (the loader has to upgrade it); distinct by document text")
	defer func() {
		if err := rep.Write(); err != nil {
			t.Fatal(err)
		}
	}()
	rep.Assume("repository goldens testdata/TestMigrateConfig_Migrate/*/{input,output}.yml are valid under their own schema; unknown extra keys do not make a document invalid")

	savedConfig, savedCtx := config, globalContext
	defer func() { config, globalContext = savedConfig, savedCtx }()

	var err error
	c13LoadDefaults, err = yaml.Marshal(config)
	if err != nil {
		rep.Inconcl("cannot serialise the default configuration: " + err.Error())
		return
	}

	docs := c13LoadDocs(rep)
	if len(docs) == 0 {
		rep.Inconcl("no golden documents")
		return
	}
	last := int(configmigrate.LastSchemaVersion)

	setup := func(body []byte) (path string) { return c13LoadSetup(t, body) }

	for i, d := range docs {
		path := setup(d.Body)
		stated := c13LoadVersion(d.Body)
		sv, _ := stated.(int)
		historical := sv < last
		rep.Eval(historical, string(d.Body))
		rep.Class("variant:" + d.Variant)
		rep.Class(fmt.Sprintf("from:v%02d", sv))
		wit := func(extra map[string]any) map[string]any {
			w := map[string]any{"golden": d.Name, "variant": d.Variant, "document": c13LoadHead(d.Body)}
			for k, v := range extra {
				w[k] = v
			}
			return w
		}
		if i < 2 {
			rep.Sample(map[string]any{"golden": d.Name, "variant": d.Variant, "stated_version": stated})
		}

		o := c13LoadRun()
		after, _ := os.ReadFile(path)
		switch {
		case o.Panicked:
			rep.Violate("load:panic:"+d.Variant, "the loader panicked on a valid document: "+o.PanicVal, wit(map[string]any{"stack": o.Stack}))
			continue
		case o.Err != nil:
			rep.Event("load_rejected")
			rep.Violate(fmt.Sprintf("load:valid-document-rejected:%s", d.Variant),
				"the loader rejected a document that is valid under its own schema: "+o.Err.Error(),
				wit(map[string]any{"error": o.Err.Error(), "file_after": c13LoadHead(after)}))
			if !bytes.Equal(after, d.Body) {
				rep.Violate("load:error-but-file-changed", "the loader failed and the configuration file content changed", wit(map[string]any{"file_after": c13LoadHead(after)}))
			}
			continue
		}
		rep.Event("load_accepted")
		if historical {
			rep.Event("load_accepted_after_upgrade")
		}
		if got := c13LoadVersion(after); got != last {
			rep.Violate(fmt.Sprintf("load:file-stamp:got-%v", got),
				fmt.Sprintf("after a successful load the configuration file is stamped %v, not %d", got, last), wit(map[string]any{"file_after": c13LoadHead(after)}))
		}
		if int(config.SchemaVersion) != last {
			rep.Violate("load:config-stamp", fmt.Sprintf("loaded configuration states schema version %d", config.SchemaVersion), wit(nil))
		}
		if !historical && !bytes.Equal(after, d.Body) {
			rep.Violate("load:current-file-rewritten", "loading a file that is already current rewrote it", wit(map[string]any{"file_after": c13LoadHead(after)}))
		}
		// Restart: the upgraded file is loaded again and must stay as it is.
		o2 := c13LoadRun()
		after2, _ := os.ReadFile(path)
		rep.Event("second_loads")
		switch {
		case o2.Panicked:
			rep.Violate("load:panic:second-load", "the loader panicked on its own upgraded file: "+o2.PanicVal, wit(map[string]any{"stack": o2.Stack}))
		case o2.Err != nil:
			rep.Violate("load:upgraded-file-rejected:"+d.Variant, "the loader rejected the file it had upgraded itself: "+o2.Err.Error(),
				wit(map[string]any{"file_after": c13LoadHead(after)}))
		case !bytes.Equal(after, after2):
			rep.Violate("load:current-file-rewritten", "loading the upgraded (current) file again rewrote it",
				wit(map[string]any{"file_after_first": c13LoadHead(after), "file_after_second": c13LoadHead(after2)}))
		}
	}

	// Values of the input that interact with constants the steps write
	// (c13_loadvalues_test.go).
	c13LoadValues(t, rep, docs, last)

	// Faults at the system calls of the save (c13_loadsys_test.go).
	c13LoadSyscallFaults(t, rep, docs, last)

	// Log levels of the process (c13_loadlevel_test.go).
	c13LoadLevels(t, rep, docs, last)

	// YAML file-format features (c13_loadyaml_test.go).
	c13LoadYAMLFeatures(t, rep, docs, last)

	// Large files (c13_loadlarge_test.go).
	c13LoadLarge(t, rep, last)

	// Write faults while the upgraded file is stored (c13_loadfault_test.go).
	c13LoadFaults(t, rep, docs, last)

	// Controls: documents the upgrade or the loader must refuse.  They show
	// that a rejection is observable here, and that a failed load leaves the
	// file alone.
	controls := []struct{ name, body string }{
		{"upgrade-error:dns-is-a-list", "schema_version: 11\ndns: [1, 2]\n"},
		{"upgrade-error:bad-bind-host", "schema_version: 22\nbind_host: nonsense\nbind_port: 3000\n"},
		{"upgrade-error:future-version", "schema_version: 1000\n"},
		{"loader-error:bad-http-address", fmt.Sprintf("schema_version: %d\nhttp:\n  address: nonsense\n", last)},
		{"loader-error:bad-interval-after-upgrade", "schema_version: 28\nstatistics:\n  interval: nonsense\n"},
		{"loader-error:port-clash", fmt.Sprintf("schema_version: %d\nhttp:\n  address: 127.0.0.1:443\ntls:\n  enabled: true\n  port_https: 443\n", last)},
	}
	for _, c := range controls {
		path := setup([]byte(c.body))
		o := c13LoadRun()
		after, _ := os.ReadFile(path)
		rep.Eval(true, "control|"+c.body)
		rep.Class("control")
		switch {
		case o.Panicked:
			rep.Violate("load:panic:control:"+c.name, "the loader panicked on a control document: "+o.PanicVal,
				map[string]any{"document": c.body, "stack": o.Stack})
		case o.Err == nil:
			rep.Inconcl("control document " + c.name + " was accepted; rejections are not observable through parseConfig")
		default:
			rep.Event("control_rejected")
			if strings.HasPrefix(c.name, "upgrade-error") && !bytes.Equal(after, []byte(c.body)) {
				rep.Violate("load:error-but-file-changed", "the upgrade failed and the configuration file content changed",
					map[string]any{"document": c.body, "error": o.Err.Error(), "file_after": c13LoadHead(after)})
			}
		}
	}

	if rep.Events["load_accepted_after_upgrade"] < 60 && !rep.Violated() {
		rep.Inconcl(fmt.Sprintf("only %d historical documents went through upgrade and load", rep.Events["load_accepted_after_upgrade"]))
	}
}
