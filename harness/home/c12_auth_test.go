//go:build verif

package home

// Runtime monitor for property C12: login throttling and session lifetime.
//
// A case is one timed history: a seeded sequence of failed / successful login
// attempts from 1-4 client addresses, authenticated requests carrying session
// cookies, logouts, clock advances and restarts, executed against the real
// handleLogin / optionalAuth / handleLogout handlers on virtual time
// (testing/synctest).  A shadow model is stepped in lock-step; the oracle is a
// set of implications that hold under every reasonable reading of the
// statement and leaves everything else in counted unspecified zones.  See
// /verif/docs/notes/C12.md.

import (
	"bytes"
	"context"
	"encoding/json"
	"fmt"
	"math/rand"
	"net/http"
	"net/http/httptest"
	"net/netip"
	"os"
	"path/filepath"
	"runtime/debug"
	"sort"
	"strings"
	"testing"
	"testing/synctest"
	"time"

	"github.com/AdguardTeam/AdGuardHome/internal/verifkit"
	"github.com/AdguardTeam/golibs/netutil"
	"go.etcd.io/bbolt"
	"golang.org/x/crypto/bcrypt"
)

// c12Window is the "within a minute" of the statement, in seconds.
const c12Window = 60

var c12Epoch = time.Date(2000, 1, 1, 0, 0, 0, 0, time.UTC)

type c12Cfg struct {
	Max      int      `json:"max_attempts"`
	BlockS   int64    `json:"block_s"`
	TTLS     int64    `json:"session_ttl_s"`
	Addrs    []string `json:"addresses"`
	StartOff int64    `json:"start_offset_s"`
	Trusted  []string `json:"trusted_proxies"`
	// Family is empty for the random histories and "many-addresses" for the
	// scripted family with Tracked filler addresses.
	Family  string `json:"family,omitempty"`
	Tracked int    `json:"tracked_addresses,omitempty"`
}

// c12Step is one executed step of a history, as it appears in witnesses.
type c12Step struct {
	I      int    `json:"i"`
	T      int64  `json:"t_s"` // seconds since 2000-01-01T00:00:00Z, virtual
	Op     string `json:"op"`
	Addr   string `json:"remote_addr,omitempty"`
	Detail string `json:"detail,omitempty"`
	Obs    string `json:"observed,omitempty"`
	Exp    string `json:"oracle,omitempty"`
}

type c12Eval struct {
	t  int64
	ok bool
}

const (
	c12Clean  = iota // certainly no counted failure (start, restart, success)
	c12Run           // certain run: starts from a clean state or after > 1 min without failures
	c12Unsure        // whether older failures still count depends on the reading
)

// c12AddrState is the shadow state of one client address.
type c12AddrState struct {
	ip       string
	evals    []c12Eval // evaluated attempts (403 / 200) since the last restart
	mode     int
	run      []int64         // failure instants of the certain run
	runKinds map[string]bool // kinds of bad credentials in the certain run
	lastFail int64
	hasFail  bool
	last429  int64
	has429   bool
	tainted  bool // an attempt fell exactly on an edge; nothing is asserted until reset
	// failsAfterSuccess counts evaluated failures since the last success, -1
	// when there was no success yet.
	failsAfterSuccess int
	// runClaims: 0 = no attempt of the run carried a forwarding header, 1 =
	// some did, 2 = some claimed an address inside the trusted proxies.
	runClaims int
	// evalsB is evals plus the requests with bad Basic credentials as
	// failures (the lenient reading of "failed logins").
	evalsB []c12Eval
	// basicInBlock: a Basic-auth request was sent inside the current block.
	basicInBlock, basicRightInBlock bool
}

func (a *c12AddrState) reset() {
	a.evals = nil
	a.evalsB = nil
	a.basicInBlock, a.basicRightInBlock = false, false
	a.mode = c12Clean
	a.run = nil
	a.runKinds = map[string]bool{}
	a.hasFail = false
	a.has429 = false
	a.tainted = false
	a.runClaims = 0
	a.failsAfterSuccess = -1
}

// justify429 reports whether the statement permits a 429 at instant t: the
// last max evaluated attempts of the address are all failures, lie within a
// minute and the last of them is at most block seconds old.
func (a *c12AddrState) justify429(t int64, max int, block int64) (ok bool, why string) {
	return c12Justify(a.evals, t, max, block)
}

func c12Justify(evals []c12Eval, t int64, max int, block int64) (ok bool, why string) {
	nf := 0
	for _, e := range evals {
		if !e.ok {
			nf++
		}
	}
	if nf == 0 {
		return false, "no-failure-from-address"
	}
	if len(evals) < max || nf < max {
		return false, "fewer-than-max-failures"
	}
	last := evals[len(evals)-max:]
	for _, e := range last {
		if e.ok {
			return false, "success-since"
		}
	}
	if last[max-1].t-last[0].t > c12Window {
		return false, "failures-not-within-a-minute"
	}
	if t-last[max-1].t > block {
		return false, "block-period-elapsed"
	}
	return true, ""
}

type c12Tok struct {
	val                 string
	user                string
	created             int64
	lastOK              int64
	loggedOut           bool
	restartsSinceCreate int
	restartsSinceLogout int
	// extLogout: a logout request carried this token's value followed by
	// extra characters (which is not this token).
	extLogout bool
	// faulted: the persistent state of this token may differ from what the
	// process answered (created, refreshed or logged out while sessions.db
	// could not be written, or its record was lost with the bucket);
	// faultedRestart: and a restart has read that state since.
	faulted, faultedRestart bool
	// logoutFault is the storage fault that was active at its logout.
	logoutFault string
	// logoutMulti: its logout request carried several session cookies.
	logoutMulti bool
	// logoutAborted: the client of its logout request had gone away (request
	// context cancelled) before the handler ran.
	logoutAborted bool
	// logoutSecFetchSite is the Sec-Fetch-Site header of its logout request.
	logoutSecFetchSite string
	// damaged: a later start found sessions.db damaged; damageAfterLogout is
	// the kind of damage of the first such start after its logout.
	damaged           bool
	damageAfterLogout string
	// maybeOut: it was a valid token of an accepted logout request that was
	// not necessarily the one ended.
	maybeOut bool
}

type c12User struct {
	name, pw string
}

type c12Hist struct {
	rep   *verifkit.Report
	rng   *rand.Rand
	cfg   c12Cfg
	users []c12User
	web   []webUser
	file  string

	auth  *Auth
	addrs []*c12AddrState
	toks  []*c12Tok
	trace []c12Step
	canon []string
	dead  bool
	// per-history observations for the non-triviality rule
	sawBlockCheck, sawSessReject bool
	cur                          int // sticky address index
	trusted                      netutil.SliceSubnetSet
	// fault is the storage fault injected since the last restart: "",
	// "bucket-deleted" or "db-closed".
	fault string
	// force >= 0 makes the next request / logout use that token.
	force int
	// clientGone makes doReq send its request with a cancelled context.
	clientGone bool
	// damage is the kind of damage done to sessions.db before the last start
	// ("" = none).
	damage string
	// extraHdrs are the browser / proxy headers of the next request.
	extraHdrs []c12Hdr
}

func (h *c12Hist) now() int64 { return time.Now().Unix() - c12Epoch.Unix() }

func (h *c12Hist) step(op, addr, detail string) *c12Step {
	h.trace = append(h.trace, c12Step{I: len(h.trace), T: h.now(), Op: op, Addr: addr, Detail: detail})
	return &h.trace[len(h.trace)-1]
}

func (h *c12Hist) witness(extra map[string]any) map[string]any {
	tr := h.trace
	if len(tr) > 260 {
		cut := c12Step{I: -1, Op: fmt.Sprintf("... %d steps omitted (filler addresses, see config and note_family) ...", len(tr)-240)}
		tr = append(append(append([]c12Step{}, tr[:40]...), cut), tr[len(tr)-200:]...)
	}
	w := map[string]any{
		"config":      h.cfg,
		"users":       "admin/pw-admin, bob/pw-bob (bcrypt MinCost hashes)",
		"history":     tr,
		"note_family": map[string]string{"many-addresses": "remote address 198.51.100.77 is the target; filler j (0-based, j < tracked_addresses) is 10.(1+(j>>16)).((j>>8)&255).(j&255) for even j and 2001:db8:1::(j+1 in hex) for odd j; every filler makes one failed login first, 250 per virtual second"}[h.cfg.Family],
		"note":        "t_s is virtual seconds since 2000-01-01T00:00:00Z; restart = Auth.Close + new rate limiter + InitAuth on the same sessions.db",
	}
	for k, v := range extra {
		w[k] = v
	}
	return w
}

func (h *c12Hist) violate(key, what string, extra map[string]any) {
	if strings.HasPrefix(key, "panic:") && h.damage != "" {
		// The program crashed while working on a database that was damaged
		// before it started: not a statement about sessions; the history
		// ends.  The Auth object is abandoned, not closed.
		h.rep.Event("crashes_after_a_start_on_a_damaged_db:" + h.damage)
		h.auth = nil
		h.dead = true
		return
	}
	h.rep.Violate(key, what, h.witness(extra))
	h.dead = true
}

// c12TrustedSets are the trusted-proxy configurations; the first one is the
// product's default.
var c12TrustedSets = [][]string{
	{"127.0.0.0/8", "::1/128"},
	{"127.0.0.0/8", "::1/128"},
	{"127.0.0.0/8", "::1/128"},
	{},
	{"192.0.2.0/24", "10.0.0.0/8", "2001:db8::/64"},
}

// c12Hdr is one forwarding header of a login attempt.
type c12Hdr struct {
	name, val string
	// class of the claimed address: "inside-trusted", "outside-trusted",
	// "other-client" or "garbage".
	class string
}

func c12RandIn(rng *rand.Rand, p netip.Prefix) netip.Addr {
	b := p.Masked().Addr().AsSlice()
	for i := p.Bits(); i < len(b)*8; i++ {
		if rng.Intn(2) == 1 {
			b[i/8] |= 1 << (7 - i%8)
		}
	}
	a, _ := netip.AddrFromSlice(b)
	return a
}

var c12Garbage = []string{"", "unknown", "999.1.1.1", "127.0.0.1:80", "127.0.0.300", "localhost", "::g", "-"}

// claim returns one claimed address value and its class.
func (h *c12Hist) claim(peer string) (val, class string) {
	r := h.rng.Intn(100)
	switch {
	case r < 40 && len(h.trusted) > 0:
		return c12RandIn(h.rng, h.trusted[h.rng.Intn(len(h.trusted))]).String(), "inside-trusted"
	case r < 55 && len(h.addrs) > 1:
		for {
			o := h.addrs[h.rng.Intn(len(h.addrs))].ip
			if o != peer {
				if h.trusted.Contains(netip.MustParseAddr(o)) {
					return o, "inside-trusted"
				}
				return o, "other-client"
			}
		}
	case r < 75:
		return c12Garbage[h.rng.Intn(len(c12Garbage))], "garbage"
	}
	for {
		var v string
		switch h.rng.Intn(3) {
		case 0:
			v = fmt.Sprintf("10.%d.%d.%d", h.rng.Intn(256), h.rng.Intn(256), 1+h.rng.Intn(254))
		case 1:
			v = fmt.Sprintf("203.0.113.%d", 100+h.rng.Intn(100))
		default:
			v = fmt.Sprintf("2001:db8:ffff::%x", 1+h.rng.Intn(0xfffe))
		}
		if !h.trusted.Contains(netip.MustParseAddr(v)) {
			return v, "outside-trusted"
		}
	}
}

// claimHeaders returns the forwarding headers of one attempt: none for half
// of the attempts, otherwise one to three different headers.
func (h *c12Hist) claimHeaders(peer string) (hdrs []c12Hdr) {
	if h.rng.Intn(2) == 0 {
		return nil
	}
	n := 1
	if h.rng.Intn(4) == 0 {
		n = 2 + h.rng.Intn(2)
	}
	for _, i := range h.rng.Perm(len(c12Spoof))[:n] {
		v, c := h.claim(peer)
		if c12Spoof[i] == "X-Forwarded-For" && h.rng.Intn(2) == 0 {
			v2, _ := h.claim(peer)
			v = v + ", " + v2
		}
		hdrs = append(hdrs, c12Hdr{name: c12Spoof[i], val: v, class: c})
	}
	return hdrs
}

func (h *c12Hist) start() bool {
	rl := newAuthRateLimiter(time.Duration(h.cfg.BlockS)*time.Second, uint(h.cfg.Max))
	h.auth = InitAuth(h.file, h.web, uint32(h.cfg.TTLS), rl, h.trusted)
	if h.auth == nil {
		if h.damage != "" {
			// The program refuses to start on a damaged file: the history
			// ends here.
			h.rep.Event("starts_refused_on_a_damaged_db:" + h.damage)
			h.dead = true
			return false
		}
		h.rep.Inconcl("InitAuth returned nil on " + h.file)
		h.dead = true
		return false
	}
	globalContext.auth = h.auth
	return true
}

// c12Spoof are the proxy headers a client may set freely; unless the peer is
// a trusted proxy they must not change which address is throttled.
var c12Spoof = []string{"X-Real-IP", "X-Forwarded-For", "CF-Connecting-IP", "True-Client-IP"}

func (h *c12Hist) remoteAddr(ip string) string {
	port := 1024 + h.rng.Intn(60000)
	if strings.Contains(ip, ":") {
		return fmt.Sprintf("[%s]:%d", ip, port)
	}
	return fmt.Sprintf("%s:%d", ip, port)
}

// doLogin sends one POST /control/login through the real handler.
func (h *c12Hist) doLogin(raddr, name, pw string, hdrs []c12Hdr, carry *string) (status int, cookie string, hasCookie bool, retry string, pan any) {
	body, _ := json.Marshal(map[string]string{"name": name, "password": pw})
	r := httptest.NewRequest(http.MethodPost, "/control/login", bytes.NewReader(body))
	r.RemoteAddr = raddr
	r.Header.Set("Content-Type", "application/json")
	for _, x := range hdrs {
		r.Header.Set(x.name, x.val)
	}
	if carry != nil {
		r.Header.Set("Cookie", sessionCookieName+"="+*carry)
	}
	for _, x := range h.extraHdrs {
		if x.name != "X-Body" && x.name != "X-Forwarded-For" && x.name != "X-Real-IP" {
			r.Header.Set(x.name, x.val)
		}
	}
	w := httptest.NewRecorder()
	func() {
		defer func() { pan = recover() }()
		handleLogin(w, r)
	}()
	if pan != nil {
		return 0, "", false, "", pan
	}
	res := w.Result()
	for _, c := range res.Cookies() {
		if c.Name == sessionCookieName {
			cookie, hasCookie = c.Value, true
		}
	}
	return res.StatusCode, cookie, hasCookie, res.Header.Get("Retry-After"), nil
}

// browserHeaders draws the headers browsers and proxies add to a request.
// They are part of the workload only: a login is a login and a logout is a
// logout whatever else the request carries.
func (h *c12Hist) browserHeaders() (hdrs []c12Hdr) {
	if h.rng.Intn(10) < 4 {
		return nil
	}
	own, foreign := "http://192.0.2.53:3000", "https://evil.example"
	add := func(odds int, name string, vals ...string) {
		if h.rng.Intn(odds) == 0 {
			hdrs = append(hdrs, c12Hdr{name: name, val: vals[h.rng.Intn(len(vals))]})
		}
	}
	add(2, "Sec-Fetch-Site", "same-origin", "same-site", "cross-site", "none")
	add(3, "Sec-Fetch-Mode", "navigate", "cors", "no-cors", "same-origin")
	add(3, "Sec-Fetch-Dest", "document", "empty", "image", "iframe")
	add(3, "Origin", own, foreign, "null")
	add(3, "Referer", own+"/", own+"/#settings", foreign+"/page.html")
	add(4, "X-Requested-With", "XMLHttpRequest", "fetch")
	add(4, "X-Forwarded-For", "10.9.8.7", "127.0.0.1, 10.1.1.1", "unknown")
	add(4, "X-Real-IP", "10.9.8.7", "127.0.0.2")
	add(4, "Accept", "*/*", "text/html,application/xhtml+xml", "application/json")
	add(4, "Cache-Control", "no-cache", "max-age=0")
	add(6, "Sec-Fetch-User", "?1")
	add(8, "X-Body", "GET-with-a-body")
	return hdrs
}

func c12HdrText(hdrs []c12Hdr) string {
	var parts []string
	for _, x := range hdrs {
		parts = append(parts, fmt.Sprintf("%s: %s", x.name, x.val))
	}
	return strings.Join(parts, " | ")
}

// doReq sends a GET through the real authentication middleware: to an
// optionalAuth-wrapped probe handler, or (logout) to optionalAuth(handleLogout),
// which is how the product routes /control/logout.  cookies are the
// agh_session values in header order (nil = no Cookie header); basic, if not
// nil, is {user, password} for an Authorization: Basic header.  ran reports
// whether the wrapped handler ran, i.e. whether the request was authenticated.
func (h *c12Hist) doReq(raddr, path string, cookies, basic []string, logout bool) (ran bool, status int, cleared bool, pan any) {
	r := httptest.NewRequest(http.MethodGet, path, nil)
	for _, x := range h.extraHdrs {
		if x.name == "X-Body" {
			r = httptest.NewRequest(http.MethodGet, path, strings.NewReader("logout=1&x=y"))
			r.Header.Set("Content-Type", "application/x-www-form-urlencoded")
		}
	}
	for _, x := range h.extraHdrs {
		if x.name != "X-Body" {
			r.Header.Set(x.name, x.val)
		}
	}
	r.RemoteAddr = raddr
	if h.clientGone {
		// The client has gone away before the handler runs: net/http cancels
		// the context of such a request.
		ctx, cancel := context.WithCancel(r.Context())
		cancel()
		r = r.WithContext(ctx)
	}
	if cookies != nil {
		var parts []string
		for _, c := range cookies {
			parts = append(parts, sessionCookieName+"="+c)
		}
		r.Header.Set("Cookie", strings.Join(parts, "; "))
	}
	if basic != nil {
		r.SetBasicAuth(basic[0], basic[1])
	}
	w := httptest.NewRecorder()
	inner := func(w http.ResponseWriter, _ *http.Request) {
		ran = true
		w.WriteHeader(http.StatusNoContent)
	}
	if logout {
		inner = func(w http.ResponseWriter, r *http.Request) {
			ran = true
			handleLogout(w, r)
		}
	}
	func() {
		defer func() { pan = recover() }()
		optionalAuth(inner)(w, r)
	}()
	if pan != nil {
		return ran, 0, false, pan
	}
	for _, c := range w.Result().Cookies() {
		if c.Name == sessionCookieName && c.Value == "" {
			cleared = true
		}
	}
	return ran, w.Code, cleared, nil
}

func c12RunKinds(m map[string]bool) string {
	if len(m) == 1 {
		for k := range m {
			return k
		}
	}
	ks := make([]string, 0, len(m))
	for k := range m {
		ks = append(ks, k)
	}
	sort.Strings(ks)
	if len(ks) == 0 {
		return "none"
	}
	return "mixed"
}

// login performs one login attempt and checks it.  kind is "right" or the
// kind of bad credentials.
func (h *c12Hist) login(ai int, kind string) {
	a := h.addrs[ai]
	u := h.users[h.rng.Intn(len(h.users))]
	name, pw := u.name, u.pw
	right := kind == "right"
	switch kind {
	case "right":
	case "wrong-password":
		pw = pw + "x"
	case "unknown-user":
		name = "nobody"
	case "other-users-password":
		for _, o := range h.users {
			if o.name != u.name {
				pw = o.pw
			}
		}
	case "empty-password":
		pw = ""
	}
	hdrs := h.claimHeaders(a.ip)
	raddr := h.remoteAddr(a.ip)
	detail := kind + " user=" + name
	canon := fmt.Sprintf("L%d:%s", ai, kind)
	// A login request may carry a session cookie (a browser or a script with
	// a cookie jar sends it along).  A login always creates a new session and
	// never changes the state of a presented token.
	var carry *string
	carried := ""
	if h.cfg.Family == "" && h.rng.Intn(100) < 35 {
		tnow := h.now()
		var cands []int
		want := []string{"live-own", "expired-own", "expired-own", "other-user", "logged-out", "junk"}[h.rng.Intn(6)]
		for i, k := range h.toks {
			st, _ := h.tokState(k, tnow)
			var cat string
			switch {
			case st == "reject:logged-out":
				cat = "logged-out"
			case k.user != name:
				cat = "other-user"
			case st == "reject:expired":
				cat = "expired-own"
			case st == "accept":
				cat = "live-own"
			}
			if cat == want {
				cands = append(cands, i)
			}
		}
		switch {
		case len(cands) > 0:
			ci := cands[h.rng.Intn(len(cands))]
			carry, carried = &h.toks[ci].val, fmt.Sprintf("%s tok#%d", want, ci)
			canon += fmt.Sprintf(":cookie=%s:tok%d", want, ci)
			h.rep.Event("logins_carrying_a_session_cookie:" + want)
			if right {
				h.rep.Event("right_password_logins_carrying_a_session_cookie:" + want)
			}
		case want == "junk" || len(h.toks) == 0:
			v, gk := h.garble(c12GarbleAll)
			carry, carried = &v, "junk "+gk
			canon += ":cookie=junk"
			h.rep.Event("logins_carrying_a_session_cookie:junk")
		}
		if carried != "" {
			detail += " Cookie: agh_session=" + carried
		}
	}
	claims := 0
	for _, x := range hdrs {
		detail += fmt.Sprintf(" %s=%q(%s)", x.name, x.val, x.class)
		canon += ":" + x.name + "=" + x.class
		if claims < 1 {
			claims = 1
		}
		if x.class == "inside-trusted" {
			claims = 2
		}
	}
	peerTrusted := h.trusted.Contains(netip.MustParseAddr(a.ip))
	if peerTrusted {
		detail += " [peer is a trusted proxy]"
	}
	h.canon = append(h.canon, canon)
	st := h.step("login", raddr, detail)
	t := h.now()
	max, block := h.cfg.Max, h.cfg.BlockS
	if len(hdrs) > 0 {
		h.rep.Event("logins_with_forwarding_headers")
		if len(hdrs) > 1 {
			h.rep.Event("logins_with_several_forwarding_headers")
		}
	}

	// A peer that is a trusted proxy may legitimately have its attempts
	// attributed to the forwarded address (the product attributes them to the
	// peer): which address is throttled is not asserted then, neither for the
	// peer nor for the clients it names, until a reset of their state.
	ambiguous := peerTrusted && len(hdrs) > 0
	if ambiguous {
		h.rep.Unspec("trusted_proxy_peer_with_forwarding_headers")
		a.tainted = true
		for _, x := range hdrs {
			for _, f := range strings.Split(x.val, ",") {
				ca, perr := netip.ParseAddr(strings.TrimSpace(f))
				if perr != nil {
					continue
				}
				for _, o := range h.addrs {
					if netip.MustParseAddr(o.ip) == ca.Unmap() {
						o.tainted = true
					}
				}
			}
		}
	} else if claims == 2 {
		h.rep.Event("logins_claiming_trusted_address_from_untrusted_peer")
	}

	// Attempts exactly on an edge are never asserted.
	if a.hasFail && (t == a.lastFail+c12Window || t == a.lastFail+block) ||
		a.mode == c12Run && len(a.run) > 0 && t == a.run[0]+c12Window {
		if !a.tainted {
			h.rep.Unspec("attempt_exactly_on_a_window_or_block_edge")
		}
		a.tainted = true
	}

	mustBlock := !a.tainted && a.mode == c12Run && len(a.run) >= max && t < a.run[len(a.run)-1]+block
	just, why := a.justify429(t, max, block)

	// tracked counts the other addresses that have a live failure record in
	// the model (recent failure or running block).
	tracked := func() string {
		c := 0
		for _, o := range h.addrs {
			if o != a && o.hasFail && (t-o.lastFail <= c12Window || len(o.run) >= max && t < o.lastFail+block) {
				c++
			}
		}
		if c < 64 {
			return ""
		}
		p := 64
		for p*2 <= c {
			p *= 2
		}
		return fmt.Sprintf(":while-%d+-other-addresses-tracked", p)
	}
	if h.cfg.Family == "" {
		h.extraHdrs = h.browserHeaders()
		if len(h.extraHdrs) > 0 {
			st.Detail += " headers=[" + c12HdrText(h.extraHdrs) + "]"
			h.rep.Event("logins_with_browser_headers")
		}
	}
	status, cookie, hasCookie, retry, pan := h.doLogin(raddr, name, pw, hdrs, carry)
	h.extraHdrs = nil
	// claimKey qualifies violation keys by what the attempts of the run and
	// this attempt claimed about their address.
	claimKey := ""
	if rc := a.runClaims; rc > 0 || claims > 0 {
		claimKey = ":with-forwarding-headers"
		if rc == 2 || claims == 2 {
			claimKey = ":with-headers-claiming-trusted-proxy-address"
		}
	}
	if a.basicRightInBlock {
		claimKey += ":after-basic-auth-with-right-credentials-inside-block"
	} else if a.basicInBlock {
		claimKey += ":after-basic-auth-request-inside-block"
	}
	if pan != nil {
		st.Obs = fmt.Sprintf("panic: %v", pan)
		h.violate("panic:login", fmt.Sprintf("handleLogin panicked: %v", pan), nil)
		return
	}
	st.Obs = fmt.Sprintf("%d", status)
	if retry != "" {
		st.Obs += " Retry-After=" + retry
	}
	if hasCookie {
		st.Obs += " Set-Cookie"
	}
	switch {
	case ambiguous:
		st.Exp = "attribution unspecified (trusted proxy peer with forwarding headers)"
	case a.tainted:
		st.Exp = "any (edge, or address named by a trusted proxy earlier)"
	case mustBlock:
		st.Exp = fmt.Sprintf("429: %d consecutive failures at %v, block lasts until t=%d", len(a.run), a.run, a.run[len(a.run)-1]+block)
	case right:
		st.Exp = "200+cookie, or 429 only if justified"
	default:
		st.Exp = "403, or 429 only if justified"
	}
	h.rep.Event(fmt.Sprintf("login_status_%d", status))
	if !a.tainted && a.mode == c12Run && len(a.run) >= max && t == a.run[len(a.run)-1]+block+1 &&
		status != http.StatusTooManyRequests {
		h.rep.Event("attempts_evaluated_1s_after_block_end")
	}
	if !a.tainted && a.mode == c12Run && len(a.run) < max && t == a.run[0]+c12Window-1 && status == http.StatusForbidden {
		h.rep.Event("failures_counted_1s_before_window_end")
	}

	if status != http.StatusOK && hasCookie {
		h.violate("login:session-cookie-on-rejected-attempt",
			fmt.Sprintf("a login answered %d carries a session cookie", status), nil)
		return
	}

	switch status {
	case http.StatusTooManyRequests:
		if a.tainted {
			return
		}
		if mustBlock {
			h.sawBlockCheck = true
			h.rep.Event("block_enforced_checks")
			if right {
				h.rep.Event("block_enforced_on_right_password")
			}
			if t > a.run[len(a.run)-1]+block-2 {
				h.rep.Event("block_enforced_1s_before_its_end")
			}
			if claims == 2 {
				h.rep.Event("block_enforced_on_attempt_claiming_trusted_address")
			}
			if a.basicInBlock {
				h.rep.Event("block_enforced_after_basic_auth_request_inside_block")
			}
			if a.basicRightInBlock {
				h.rep.Event("block_enforced_after_right_basic_credentials_inside_block")
			}
			if h.cfg.Tracked > 0 {
				h.rep.Event("block_enforced_checks_with_many_tracked_addresses")
				if h.cfg.Tracked >= 512 && ai == 0 {
					h.rep.Event("block_enforced_checks_on_new_address_with_512+_tracked")
				}
			}
		}
		if !just {
			if jb, _ := c12Justify(a.evalsB, t, max, block); jb {
				// Permitted only if requests with bad Basic credentials are
				// counted as failed logins.
				h.rep.Unspec("blocked_when_failed_basic_auth_counts_as_failed_login")
				a.has429, a.last429 = true, t
				return
			}
			if a.has429 && t-a.last429 <= block {
				h.rep.Unspec("blocked_attempt_extends_block")
				a.last429 = t
				return
			}
			h.violate("throttle:blocked-without-run:"+why,
				fmt.Sprintf("login from %s answered 429 although the statement does not permit a block (%s)", a.ip, why),
				map[string]any{"address": a.ip, "reason": why})
			return
		}
		h.rep.Event("429_justified_by_a_run")
		if !mustBlock {
			h.rep.Unspec("blocked_outside_a_certain_run")
		}
		a.has429, a.last429 = true, t
		return

	case http.StatusForbidden:
		if right {
			h.violate("login:right-password-rejected-403",
				"a login with the right credentials was answered 403", nil)
			return
		}
		if mustBlock {
			h.violate("throttle:evaluated-in-block:after-"+c12RunKinds(a.runKinds)+claimKey+tracked(),
				fmt.Sprintf("credentials were evaluated (403) inside the block period of %s", a.ip),
				map[string]any{"address": a.ip, "run": a.run, "block_until": a.run[len(a.run)-1] + block})
			return
		}
		a.has429 = false
		if !a.tainted && just {
			// The code did not block where a sliding reading of the window
			// would.
			h.rep.Unspec("evaluated_where_a_sliding_window_would_block")
		}
		a.evals = append(a.evals, c12Eval{t: t})
		a.evalsB = append(a.evalsB, c12Eval{t: t})
		if a.failsAfterSuccess >= 0 {
			a.failsAfterSuccess++
			if a.failsAfterSuccess <= max-1 {
				h.rep.Event("failures_after_success_within_limit")
			}
		}
		switch {
		case a.mode == c12Clean, a.hasFail && t-a.lastFail > c12Window:
			a.mode = c12Run
			a.run = []int64{t}
			a.runKinds = map[string]bool{kind: true}
			a.runClaims = claims
			a.basicInBlock, a.basicRightInBlock = false, false
		case a.mode == c12Run && len(a.run) < max && t-a.run[0] < c12Window:
			a.run = append(a.run, t)
			a.runKinds[kind] = true
			if claims > a.runClaims {
				a.runClaims = claims
			}
		default:
			if a.mode != c12Unsure {
				h.rep.Unspec("failure_after_window_or_block_with_recent_failures")
			}
			a.mode = c12Unsure
			a.run = nil
		}
		a.lastFail, a.hasFail = t, true
		if !a.tainted && a.mode == c12Run && len(a.run) == max {
			h.rep.Event("certain_runs_reaching_limit")
			if a.runClaims == 2 {
				h.rep.Event("certain_runs_with_claimed_trusted_address_reaching_limit")
			}
		}
		return

	case http.StatusOK:
		if !right {
			h.violate("login:bad-credentials-accepted:"+kind,
				"a login with bad credentials ("+kind+") was answered 200", nil)
			return
		}
		if mustBlock {
			h.violate("throttle:accepted-in-block:after-"+c12RunKinds(a.runKinds)+claimKey+tracked(),
				fmt.Sprintf("the right password was evaluated and accepted inside the block period of %s", a.ip),
				map[string]any{"address": a.ip, "run": a.run, "block_until": a.run[len(a.run)-1] + block})
			return
		}
		if !hasCookie || cookie == "" {
			h.violate("login:no-session-cookie-on-success", "200 without a session cookie", nil)
			return
		}
		for ki, k := range h.toks {
			if k.val == cookie {
				sfx := ""
				if carried != "" {
					sfx = ":request-carried-" + strings.Fields(carried)[0] + "-token"
				}
				was, _ := h.tokState(k, t)
				ran, code, _, _ := h.doReq(raddr, "/control/status", []string{k.val}, nil, false)
				if ran && strings.HasPrefix(was, "reject:") {
					sfx += ":dead-token-authenticates-again"
				}
				h.violate("session:login-returned-an-already-issued-token"+sfx,
					fmt.Sprintf("a successful login returned the value of tok#%d, issued before, instead of a new token", ki),
					map[string]any{"token": ki, "state_of_that_token_before_the_login": was,
						"request_with_that_token_after_the_login": fmt.Sprintf("handler_ran=%v status=%d", ran, code)})
				return
			}
		}
		if !a.tainted && just {
			h.rep.Unspec("evaluated_where_a_sliding_window_would_block")
		}
		if !ambiguous {
			if a.hasFail && !a.tainted {
				h.rep.Event("success_clearing_a_count")
			}
			a.reset()
			a.evals = append(a.evals, c12Eval{t: t, ok: true})
			a.evalsB = append(a.evalsB, c12Eval{t: t, ok: true})
			a.failsAfterSuccess = 0
		}
		h.toks = append(h.toks, &c12Tok{val: cookie, user: name, created: t, lastOK: t, faulted: h.fault != ""})
		st.Obs += fmt.Sprintf(" -> tok#%d", len(h.toks)-1)
		h.rep.Event("sessions_created")
		return

	default:
		h.violate("login:unexpected-status", fmt.Sprintf("unexpected status %d", status), nil)
	}
}

func c12RandHex(rng *rand.Rand, n int) string {
	const hexd = "0123456789abcdef"
	b := make([]byte, n)
	for i := range b {
		b[i] = hexd[rng.Intn(16)]
	}
	return string(b)
}

// garble derives a cookie value that is not an issued token.
func (h *c12Hist) garble(kinds []string) (val, kind string) {
	for {
		kind = kinds[h.rng.Intn(len(kinds))]
		var base string
		baseName := "a random 32-digit hex string"
		if len(h.toks) > 0 {
			bi := h.rng.Intn(len(h.toks))
			base, baseName = h.toks[bi].val, fmt.Sprintf("the value of tok#%d", bi)
		} else {
			base = c12RandHex(h.rng, 32)
		}
		switch kind {
		case "flip-last-digit":
			c := base[len(base)-1]
			n := byte('0')
			if c == '0' {
				n = '1'
			}
			val = base[:len(base)-1] + string(n)
		case "truncated":
			val = base[:len(base)-1-h.rng.Intn(2)]
		case "extended-hex":
			val = base + "00"
		case "extended-odd":
			val = base + "a"
		case "extended-nonhex":
			val = base + "zz"
		case "random-hex":
			val = c12RandHex(h.rng, 32)
		case "short":
			val = "bad"
		case "empty":
			val = ""
		}
		clash := false
		for _, k := range h.toks {
			if k.val == val {
				clash = true
			}
		}
		if !clash {
			switch kind {
			case "random-hex", "short", "empty":
			default:
				kind += " of " + baseName
			}
			return val, kind
		}
	}
}

var c12GarbleAll = []string{"flip-last-digit", "truncated", "extended-hex", "extended-odd", "extended-nonhex", "random-hex", "short", "empty"}

func (h *c12Hist) pickTok() int {
	// Prefer recent tokens.
	n := len(h.toks)
	if h.rng.Intn(3) > 0 {
		lo := n - 3
		if lo < 0 {
			lo = 0
		}
		return lo + h.rng.Intn(n-lo)
	}
	return h.rng.Intn(n)
}

// tokState is the oracle's reading of one issued token at instant t:
// "accept", "either" (with the unspecified zone), "reject:logged-out" or
// "reject:expired".
func (h *c12Hist) tokState(k *c12Tok, t int64) (state, zone string) {
	ttl := h.cfg.TTLS
	switch {
	case k.loggedOut && k.logoutFault == "":
		// A logout that was processed with a writable database ends the
		// token for this process and every later one.
		return "reject:logged-out", ""
	case k.damaged && t <= k.lastOK+ttl:
		// What survives a start on a damaged sessions.db is not specified.
		return "either", "live_token_after_start_on_a_damaged_db"
	case k.faultedRestart && t <= k.lastOK+ttl:
		// What a restart restores from a db that could not be written is
		// not specified.
		return "either", "token_after_restart_from_db_that_could_not_be_written"
	case k.loggedOut:
		return "reject:logged-out", ""
	case k.maybeOut && t <= k.lastOK+ttl:
		return "either", "other_valid_token_of_an_accepted_logout_request"
	case t < k.created+ttl:
		return "accept", ""
	case t > k.lastOK+ttl:
		return "reject:expired", ""
	case t == k.lastOK+ttl:
		return "either", "request_exactly_at_expiry"
	}
	return "either", "between_initial_expiry_and_last_use_plus_ttl"
}

type c12Cookie struct {
	tok  int // index of the issued token, -1 for a value that was never issued
	val  string
	desc string
	kind string // kind of never-issued value
}

func (h *c12Hist) authReq() { h.cookieReq(false) }
func (h *c12Hist) logout()  { h.cookieReq(true) }

// cookieReq performs one request that carries agh_session cookies through the
// real middleware: to the probe handler, or to /control/logout.  The product
// (http.Request.Cookie) documents the first cookie of that name as the
// session; the oracle demands acceptance when the first cookie is a certainly
// valid token and refusal when no cookie is a possibly valid token; a valid
// token behind an invalid first cookie is an unspecified zone.  After an
// accepted logout the token that authenticated it must be dead.
func (h *c12Hist) cookieReq(logout bool) {
	raddr := h.remoteAddr(h.addrs[h.rng.Intn(len(h.addrs))].ip)
	path := "/control/status"
	if logout {
		path = "/control/logout"
	} else if h.rng.Intn(5) == 0 {
		path = "/"
	}
	t := h.now()
	ttl := h.cfg.TTLS
	op := "request"
	if logout {
		op = "logout"
	}

	mk := func(ti int) c12Cookie {
		return c12Cookie{tok: ti, val: h.toks[ti].val, desc: fmt.Sprintf("tok#%d", ti)}
	}
	junk := func(kinds []string) c12Cookie {
		val, kind := h.garble(kinds)
		return c12Cookie{tok: -1, val: val, desc: fmt.Sprintf("%s %q", kind, val), kind: strings.SplitN(kind, " of ", 2)[0]}
	}
	empty := c12Cookie{tok: -1, val: "", desc: `empty ""`, kind: "empty"}
	junkKinds := c12GarbleAll
	if logout {
		junkKinds = []string{"flip-last-digit", "truncated", "extended-hex", "extended-odd", "extended-nonhex", "random-hex", "short"}
	}
	var cks []c12Cookie
	noCookie := false
	unissuedOdds := 5
	if logout {
		unissuedOdds = 6
	}
	switch {
	case h.force >= 0:
		cks = []c12Cookie{mk(h.force)}
	case len(h.toks) == 0 || h.rng.Intn(unissuedOdds) == 0:
		if !logout && h.rng.Intn(8) == 0 {
			noCookie = true
		} else {
			cks = []c12Cookie{junk(junkKinds)}
		}
	case h.rng.Intn(4) == 0:
		// Several agh_session cookies in one request.
		tk := mk(h.pickTok())
		switch h.rng.Intn(8) {
		case 0:
			cks = []c12Cookie{tk, tk}
		case 1:
			cks = []c12Cookie{tk, junk(junkKinds)}
		case 2:
			cks = []c12Cookie{junk(junkKinds), tk}
		case 3:
			cks = []c12Cookie{empty, tk}
		case 4:
			cks = []c12Cookie{tk, empty}
		case 5:
			cks = []c12Cookie{mk(h.pickTok()), tk}
		case 6:
			cks = []c12Cookie{mk(h.rng.Intn(len(h.toks))), tk}
		default:
			cks = []c12Cookie{junk(junkKinds), mk(h.rng.Intn(len(h.toks))), tk}
		}
	default:
		cks = []c12Cookie{mk(h.pickTok())}
	}
	multi := len(cks) > 1

	var descs, canon, vals []string
	states := make([]string, len(cks))
	zones := make([]string, len(cks))
	for i, c := range cks {
		descs = append(descs, c.desc)
		if c.tok >= 0 {
			canon = append(canon, fmt.Sprintf("tok%d", c.tok))
			states[i], zones[i] = h.tokState(h.toks[c.tok], t)
		} else {
			canon = append(canon, c.kind)
			states[i] = "reject:unissued"
		}
		vals = append(vals, c.val)
	}
	if noCookie {
		descs, canon, vals = []string{"no-cookie"}, []string{"no-cookie"}, nil
	}
	h.canon = append(h.canon, fmt.Sprintf("%s:%s", map[bool]string{false: "A", true: "O"}[logout], strings.Join(canon, "+")))
	st := h.step(op, raddr, path+" cookies=["+strings.Join(descs, "; ")+"]")

	possible := func(i int) bool { return states[i] == "accept" || states[i] == "either" }
	exp, zone := "reject", ""
	blame := -1 // cookie index the refusal is attributed to
	switch {
	case len(cks) == 0:
	case states[0] == "accept":
		exp = "accept"
	case states[0] == "either":
		exp, zone = "either", zones[0]
	default:
		for i := 1; i < len(cks); i++ {
			if possible(i) {
				exp, zone = "either", "valid_token_behind_an_invalid_first_session_cookie"
			}
		}
		if exp == "reject" {
			for _, want := range []string{"reject:logged-out", "reject:expired"} {
				for i := range cks {
					if blame < 0 && states[i] == want {
						blame = i
					}
				}
			}
		}
	}
	if zone != "" {
		h.rep.Unspec(zone)
	}
	reason := "not an issued token"
	var k *c12Tok
	ti := -1
	switch {
	case exp == "accept" || exp == "either" && cks[0].tok >= 0:
		ti = cks[0].tok
	case blame >= 0:
		ti = cks[blame].tok
		reason = strings.TrimPrefix(states[blame], "reject:")
	}
	if ti >= 0 {
		k = h.toks[ti]
		st.Exp = fmt.Sprintf("%s (tok#%d created=%d last_accepted=%d ttl=%d)", exp, ti, k.created, k.lastOK, ttl)
		if exp == "reject" {
			st.Exp = fmt.Sprintf("reject:%s (tok#%d created=%d last_accepted=%d ttl=%d)", reason, ti, k.created, k.lastOK, ttl)
		}
	} else {
		st.Exp = exp + " (" + reason + ")"
	}
	if zone != "" {
		st.Exp += " [" + zone + "]"
	}

	extra := h.browserHeaders()
	secFetchSite := ""
	if len(extra) > 0 {
		st.Detail += " headers=[" + c12HdrText(extra) + "]"
		h.rep.Event("requests_with_browser_or_proxy_headers")
		if logout {
			h.rep.Event("logout_requests_with_browser_or_proxy_headers")
		}
		for _, x := range extra {
			if x.name == "Sec-Fetch-Site" {
				secFetchSite = x.val
				if logout {
					h.rep.Event("logout_requests_with_sec_fetch_site:" + x.val)
				}
			}
		}
	}
	h.extraHdrs = extra
	defer func() { h.extraHdrs = nil }()
	aborted := logout && h.force < 0 && len(cks) > 0 && cks[0].tok >= 0 && h.rng.Intn(5) == 0
	if aborted {
		st.Detail += " [client gone: request context cancelled before the handler runs]"
		h.canon[len(h.canon)-1] += ":client-gone"
		h.rep.Event("logout_requests_whose_client_had_gone_away")
	}
	h.clientGone = aborted
	ran, code, cleared, pan := h.doReq(raddr, path, vals, nil, logout)
	h.clientGone = false
	if pan != nil {
		st.Obs = fmt.Sprintf("panic: %v", pan)
		h.violate("panic:"+op, fmt.Sprintf("the %s request panicked: %v", op, pan), nil)
		return
	}
	st.Obs = fmt.Sprintf("handler_ran=%v status=%d", ran, code)
	if logout {
		st.Obs = fmt.Sprintf("logout_handler_ran=%v status=%d session_cookie_cleared=%v", ran, code, cleared)
	}
	if multi {
		h.rep.Event("requests_with_several_session_cookies")
		if logout {
			h.rep.Event("logout_requests_with_several_session_cookies")
		}
	}
	shape := ""
	if multi {
		shape += ":several-session-cookies"
	}
	if logout {
		shape += ":logout-request"
	}
	sfx := ""
	switch {
	case exp == "accept":
		h.rep.Event("session_must_accept_checks")
		if k.restartsSinceCreate > 0 {
			h.rep.Event("session_must_accept_checks_after_restart")
			sfx = ":after-restart"
		}
		if t == k.created+ttl-1 {
			h.rep.Event("session_accept_checks_1s_before_expiry")
		}
		if multi {
			h.rep.Event("session_must_accept_checks_with_several_cookies")
		}
		if !ran {
			if k.extLogout {
				sfx += ":after-logout-with-token-plus-suffix"
			}
			h.violate("session:rejected-while-valid"+sfx+shape,
				fmt.Sprintf("tok#%d was rejected at t=%d although created at %d with ttl %d and never logged out", ti, t, k.created, ttl),
				map[string]any{"token": ti})
			return
		}
	case exp == "reject" && reason == "logged-out":
		h.sawSessReject = true
		h.rep.Event("session_reject_checks_after_logout")
		if k.restartsSinceLogout > 0 {
			h.rep.Event("session_reject_checks_after_logout_and_restart")
			sfx = ":after-restart"
		}
		if k.logoutFault != "" {
			h.rep.Event("session_reject_checks_after_logout_during_storage_fault")
			sfx += ":storage-fault-" + k.logoutFault
		}
		if k.damageAfterLogout != "" {
			h.rep.Event("session_reject_checks_after_logout_and_start_on_a_damaged_db")
			sfx += ":after-start-on-damaged-db"
		}
		if k.logoutSecFetchSite != "" {
			h.rep.Event("session_reject_checks_after_logout_with_sec_fetch_site:" + k.logoutSecFetchSite)
			sfx += ":logout-carried-sec-fetch-site-" + k.logoutSecFetchSite
		}
		if k.logoutAborted {
			h.rep.Event("session_reject_checks_after_client_aborted_logout")
			if k.restartsSinceLogout > 0 {
				h.rep.Event("session_reject_checks_after_client_aborted_logout_and_restart")
			}
			sfx += ":logout-client-had-gone-away"
		}
		if k.logoutMulti {
			h.rep.Event("session_reject_checks_after_logout_with_several_cookies")
			sfx += ":logout-had-several-session-cookies"
		}
		if ran {
			h.violate("session:accepted-after-logout"+sfx+shape,
				fmt.Sprintf("tok#%d authenticated a request after its logout", ti), map[string]any{"token": ti})
			return
		}
	case exp == "reject" && reason == "expired":
		h.sawSessReject = true
		h.rep.Event("session_reject_checks_after_expiry")
		if k.restartsSinceCreate > 0 {
			h.rep.Event("session_reject_checks_after_expiry_and_restart")
			sfx = ":after-restart"
		}
		if t == k.lastOK+ttl+1 {
			h.rep.Event("session_reject_checks_1s_after_expiry")
		}
		if ran {
			h.violate("session:accepted-after-expiry"+sfx+shape,
				fmt.Sprintf("tok#%d authenticated a request at t=%d; last accepted at %d, ttl %d", ti, t, k.lastOK, ttl),
				map[string]any{"token": ti})
			return
		}
	case exp == "reject":
		h.rep.Event("unknown_token_checks")
		kind := "no-cookie"
		if len(cks) > 0 {
			kind = cks[0].kind
		}
		if ran {
			h.violate("session:unissued-token-accepted:"+kind+shape,
				"a request whose session cookies are not issued tokens ("+strings.Join(descs, "; ")+") was authenticated", nil)
			return
		}
	default:
		if zone == "between_initial_expiry_and_last_use_plus_ttl" {
			if ran {
				h.rep.Event("accepted_past_initial_expiry(refreshed)")
			} else {
				h.rep.Event("rejected_past_initial_expiry")
			}
		}
		if zone == "valid_token_behind_an_invalid_first_session_cookie" {
			if ran {
				h.rep.Event("authenticated_by_a_later_session_cookie")
			} else {
				h.rep.Event("refused_because_first_session_cookie_invalid")
			}
		}
	}
	if logout {
		for _, c := range cks {
			for _, o := range h.toks {
				if c.val != o.val && strings.HasPrefix(c.val, o.val) {
					o.extLogout = true
					h.rep.Event("logouts_with_issued_token_plus_suffix")
				}
			}
		}
	}
	if !ran {
		if logout {
			h.rep.Event("logout_requests_refused_by_middleware")
		}
		return
	}
	// The request was authenticated: every possibly valid token it carried
	// may have been used (and refreshed).
	var valid []int
	for i, c := range cks {
		if c.tok >= 0 && possible(i) {
			h.toks[c.tok].lastOK = t
			dup := false
			for _, v := range valid {
				dup = dup || v == c.tok
			}
			if !dup {
				valid = append(valid, c.tok)
			}
		}
	}
	if !logout {
		return
	}

	// An accepted logout.  The token that authenticated it is dead from now
	// on: the only possibly valid one, or the first cookie if that is a
	// certainly valid token.  Other valid tokens of the request may or may
	// not have been ended.
	h.rep.Event("logouts_accepted")
	hard := -1
	if len(valid) == 1 {
		hard = valid[0]
	} else if len(cks) > 0 && cks[0].tok >= 0 && states[0] == "accept" {
		hard = cks[0].tok
	}
	for _, v := range valid {
		o := h.toks[v]
		if h.fault != "" {
			o.faulted = true
		}
		if v != hard {
			if !o.loggedOut {
				o.maybeOut = true
				h.rep.Unspec("other_valid_token_of_an_accepted_logout_request")
			}
			continue
		}
		st.Exp += fmt.Sprintf("; tok#%d is dead from now on", v)
		if h.fault != "" {
			st.Exp += " although sessions.db cannot be written (" + h.fault + ")"
		}
		if !o.loggedOut {
			o.loggedOut = true
			o.restartsSinceLogout = 0
			o.logoutFault = h.fault
			o.logoutMulti = multi
			o.logoutAborted = aborted
			o.logoutSecFetchSite = secFetchSite
			if len(extra) > 0 {
				h.rep.Event("logouts_with_browser_or_proxy_headers")
			}
			if aborted {
				h.rep.Event("logouts_processed_after_the_client_had_gone_away")
			}
			h.rep.Event("logouts")
			if h.fault != "" {
				h.rep.Event("logouts_during_storage_fault")
			}
			if multi {
				h.rep.Event("logouts_with_several_session_cookies")
			}
		}
	}
	if multi && hard >= 0 && h.force < 0 && !h.dead && h.rng.Intn(2) == 0 {
		h.force = hard
		h.cookieReq(false)
		h.force = -1
	}
	// A logout that was processed although its client had gone away: the
	// token is probed now and, half of the time, again after a restart.
	if aborted && hard >= 0 && h.force < 0 && !h.dead {
		h.force = hard
		h.cookieReq(false)
		if !h.dead && h.rng.Intn(2) == 0 {
			h.restart()
			if !h.dead {
				h.cookieReq(false)
			}
		}
		h.force = -1
	}
}

// basicReq sends a cookie-less request with Authorization: Basic from a login
// address.  The property speaks of logins only: such requests neither clear a
// block nor (asserted leniently, see the 429 rule) count as failed logins.
func (h *c12Hist) basicReq(ai int) {
	a := h.addrs[ai]
	u := h.users[h.rng.Intn(len(h.users))]
	name, pw := u.name, u.pw
	right := h.rng.Intn(2) == 0
	kind := "right"
	if !right {
		if h.rng.Intn(3) == 0 {
			name, kind = "nobody", "unknown-user"
		} else {
			pw, kind = pw+"x", "wrong-password"
		}
	}
	raddr := h.remoteAddr(a.ip)
	t := h.now()
	max, block := h.cfg.Max, h.cfg.BlockS
	blocked := !a.tainted && a.mode == c12Run && len(a.run) >= max && t < a.run[len(a.run)-1]+block
	h.canon = append(h.canon, fmt.Sprintf("B%d:%s", ai, kind))
	st := h.step("basic-auth request", raddr, "/control/status no cookie, Authorization: Basic "+kind+" user="+name)
	ran, code, _, pan := h.doReq(raddr, "/control/status", nil, []string{name, pw}, false)
	if pan != nil {
		st.Obs = fmt.Sprintf("panic: %v", pan)
		h.violate("panic:basic-auth-request", fmt.Sprintf("optionalAuth panicked: %v", pan), nil)
		return
	}
	st.Obs = fmt.Sprintf("handler_ran=%v status=%d", ran, code)
	st.Exp = "no effect on the login throttle of " + a.ip
	h.rep.Event("basic_auth_requests_" + map[bool]string{true: "right", false: "wrong"}[right] + "_credentials")
	if !right {
		st.Exp += "; not authenticated"
		if ran {
			h.violate("basic-auth:bad-credentials-accepted:"+kind, "a request with bad Basic credentials was authenticated", nil)
			return
		}
		a.evalsB = append(a.evalsB, c12Eval{t: t})
	}
	if blocked {
		a.basicInBlock = true
		h.rep.Event("basic_auth_requests_from_blocked_address")
		if right {
			a.basicRightInBlock = true
			h.rep.Event("basic_auth_requests_with_right_credentials_from_blocked_address")
		}
		if h.rng.Intn(2) == 0 {
			h.login(ai, c12Pick(h.rng, "right", "wrong-password"))
		}
	}
}

// injectFault makes writes to sessions.db fail from now until the next
// restart, in a way that is harmless for the unchanged product: either the
// sessions bucket is deleted through the product's own bbolt handle (the next
// removal finds no bucket; the next store re-creates it), or the handle is
// closed (every transaction fails with "database not open"; Close at the
// restart is idempotent).  Half of the time it is followed at once by the
// logout of a live token and a request with it.
func (h *c12Hist) injectFault() {
	kind := "bucket-deleted"
	if h.rng.Intn(2) == 0 {
		kind = "db-closed"
	}
	h.canon = append(h.canon, "F:"+kind)
	st := h.step("storage-fault", "", kind)
	var err error
	var pan any
	func() {
		defer func() { pan = recover() }()
		if kind == "db-closed" {
			err = h.auth.db.Close()
		} else {
			err = h.auth.db.Update(func(tx *bbolt.Tx) error { return tx.DeleteBucket(bucketName()) })
		}
	}()
	st.Obs = fmt.Sprintf("err=%v panic=%v", err, pan)
	h.rep.Event("storage_faults_injected:" + kind)
	if h.fault == "" || kind == "db-closed" {
		h.fault = kind
	}
	var live []int
	for i, k := range h.toks {
		if kind == "bucket-deleted" {
			k.faulted = true
		}
		if !k.loggedOut && !k.faultedRestart && h.now() < k.created+h.cfg.TTLS {
			live = append(live, i)
		}
	}
	if len(live) > 0 && h.rng.Intn(2) == 0 {
		h.force = live[h.rng.Intn(len(live))]
		h.authReq()
		if !h.dead {
			h.logout()
		}
		if !h.dead {
			h.authReq()
		}
		h.force = -1
	}
}

func (h *c12Hist) restart() { h.restartDamaged("") }

var c12Damages = []string{"meta-pages-zeroed", "meta-pages-zeroed", "meta-pages-garbage", "truncated-to-0",
	"truncated-to-half", "truncated-to-a-page-boundary", "garbage-appended"}

// c12Damage damages the closed sessions.db between two runs.
func c12Damage(file, kind string, rng *rand.Rand) (err error) {
	ps := int64(os.Getpagesize())
	fi, err := os.Stat(file)
	if err != nil {
		return err
	}
	junk := func(n int64) []byte {
		b := make([]byte, n)
		for i := range b {
			b[i] = byte(rng.Intn(256))
		}
		return b
	}
	switch kind {
	case "meta-pages-zeroed", "meta-pages-garbage":
		f, oerr := os.OpenFile(file, os.O_WRONLY, 0)
		if oerr != nil {
			return oerr
		}
		defer f.Close()
		b := make([]byte, 2*ps)
		if kind == "meta-pages-garbage" {
			b = junk(2 * ps)
		}
		_, err = f.WriteAt(b, 0)
	case "truncated-to-0":
		err = os.Truncate(file, 0)
	case "truncated-to-half":
		err = os.Truncate(file, fi.Size()/2)
	case "truncated-to-a-page-boundary":
		n := fi.Size() / ps
		if n < 2 {
			n = 2
		}
		err = os.Truncate(file, ps*(1+rng.Int63n(n-1)))
	case "garbage-appended":
		f, oerr := os.OpenFile(file, os.O_WRONLY|os.O_APPEND, 0)
		if oerr != nil {
			return oerr
		}
		defer f.Close()
		_, err = f.Write(junk(1 + rng.Int63n(2*ps)))
	}
	return err
}

// restartDamaged stops the program, optionally damages sessions.db, and
// starts it again.  On a damaged file the start may fail (the history ends,
// that is fine); if it succeeds, tokens logged out in an earlier run and
// never issued ones must be refused, whatever happened to the live ones.
func (h *c12Hist) restartDamaged(damage string) {
	h.canon = append(h.canon, "R"+damage)
	st := h.step("restart", "", damage)
	if damage != "" {
		st.Detail = "sessions.db damaged between the runs: " + damage
	}
	var pan any
	var derr error
	func() {
		defer func() { pan = recover() }()
		h.auth.Close()
		if damage != "" {
			derr = c12Damage(h.file, damage, h.rng)
		}
		h.damage = damage
		h.start()
	}()
	if damage != "" {
		h.rep.Event("starts_on_a_damaged_db:" + damage)
		if derr != nil {
			st.Detail += fmt.Sprintf(" (damaging failed: %v)", derr)
		}
	}
	if pan != nil {
		st.Obs = fmt.Sprintf("panic: %v", pan)
		if damage != "" {
			// The program crashed on the damaged file instead of starting.
			h.rep.Event("starts_crashed_on_a_damaged_db:" + damage)
			h.auth = nil
			h.dead = true
			return
		}
		h.violate("panic:restart", fmt.Sprintf("Close/InitAuth panicked: %v", pan), nil)
		return
	}
	if h.dead {
		st.Obs = "the program refused to start"
		return
	}
	if damage != "" {
		st.Obs = "started"
		h.rep.Event("starts_succeeded_on_a_damaged_db:" + damage)
		for _, k := range h.toks {
			k.damaged = true
			if k.loggedOut && k.damageAfterLogout == "" {
				k.damageAfterLogout = damage
			}
		}
	}
	h.rep.Event("restarts")
	for _, a := range h.addrs {
		a.reset()
	}
	h.fault = ""
	for _, k := range h.toks {
		if k.faulted {
			k.faultedRestart = true
		}
		k.restartsSinceCreate++
		if k.loggedOut {
			k.restartsSinceLogout++
		}
	}
}

// damageScenario: a token lives through a clean restart, is logged out in the
// next run, the database is damaged between that run and the next, and the
// token is presented to whatever starts then.
func (h *c12Hist) damageScenario() {
	var live []int
	for i, k := range h.toks {
		if st, _ := h.tokState(k, h.now()); st == "accept" {
			live = append(live, i)
		}
	}
	if len(live) == 0 {
		h.restartDamaged(c12Damages[h.rng.Intn(len(c12Damages))])
		return
	}
	ti := live[h.rng.Intn(len(live))]
	h.restart()
	if h.dead {
		return
	}
	h.force = ti
	h.cookieReq(true)
	h.force = -1
	if h.dead {
		return
	}
	h.restartDamaged(c12Damages[h.rng.Intn(len(c12Damages))])
	if h.dead {
		return
	}
	h.force = ti
	h.cookieReq(false)
	h.force = -1
}

// edges returns the instants on which no step may fall.
func (h *c12Hist) edges() map[int64]bool {
	e := map[int64]bool{}
	for _, a := range h.addrs {
		if a.hasFail {
			e[a.lastFail+c12Window] = true
			e[a.lastFail+h.cfg.BlockS] = true
		}
		if len(a.run) > 0 {
			e[a.run[0]+c12Window] = true
		}
		for _, ev := range a.evals {
			if !ev.ok {
				e[ev.t+c12Window] = true
				e[ev.t+h.cfg.BlockS] = true
			}
		}
		if a.has429 {
			e[a.last429+h.cfg.BlockS] = true
		}
	}
	for _, k := range h.toks {
		e[k.created+h.cfg.TTLS] = true
		e[k.lastOK+h.cfg.TTLS] = true
	}
	return e
}

func (h *c12Hist) advance() {
	now := h.now()
	var d int64
	var why string
	r := h.rng.Intn(100)
	switch {
	case r < 35:
		d, why = int64(1+h.rng.Intn(5)), "small"
	case r < 85:
		// Around an edge of the model: edge-1 s or edge+1 s.
		var cand []int64
		var names []string
		add := func(edge int64, name string, w int) {
			for _, off := range []int64{-1, 1} {
				if edge+off > now {
					for i := 0; i < w; i++ {
						cand = append(cand, edge+off)
						names = append(names, fmt.Sprintf("%s%+d", name, off))
					}
				}
			}
		}
		for _, a := range h.addrs {
			if a.hasFail {
				add(a.lastFail+c12Window, "last-failure+60s", 2)
				add(a.lastFail+h.cfg.BlockS, "last-failure+block", 3)
			}
			if len(a.run) > 0 {
				add(a.run[0]+c12Window, "first-failure+60s", 3)
			}
		}
		for _, k := range h.toks {
			if k.loggedOut {
				continue
			}
			add(k.created+h.cfg.TTLS, "created+ttl", 1)
			if k.lastOK != k.created {
				add(k.lastOK+h.cfg.TTLS, "last-accepted+ttl", 1)
			}
		}
		day := int64(86400)
		add((now/day+1)*day, "utc-midnight", 1)
		if len(cand) > 0 {
			i := h.rng.Intn(len(cand))
			d, why = cand[i]-now, names[i]
		} else {
			d, why = int64(1+h.rng.Intn(5)), "small"
		}
	case r < 95:
		d, why = int64(6+h.rng.Intn(115)), "medium"
	default:
		d, why = int64(1+h.rng.Int63n(2*h.cfg.TTLS)), "ttl-scale"
	}
	e := h.edges()
	for e[now+d] {
		d++
	}
	h.canon = append(h.canon, fmt.Sprintf("T%d", d))
	h.step("advance", "", fmt.Sprintf("+%ds (%s)", d, why))
	time.Sleep(time.Duration(d) * time.Second)
	h.rep.Event("clock_advances")
}

var c12WrongKinds = []string{"wrong-password", "wrong-password", "wrong-password", "unknown-user", "unknown-user",
	"other-users-password", "empty-password"}

func (h *c12Hist) run() {
	if !time.Now().Equal(c12Epoch) {
		h.rep.Inconcl("virtual clock not available: time.Now() is not 2000-01-01T00:00:00Z at the start of the bubble")
		h.dead = true
		return
	}
	// A read of the memory-mapped sessions.db beyond a truncated file must
	// surface as a panic of the call (recovered and counted), not kill the
	// monitor.
	defer debug.SetPanicOnFault(debug.SetPanicOnFault(true))
	if h.cfg.StartOff > 0 {
		time.Sleep(time.Duration(h.cfg.StartOff) * time.Second)
	}
	if !h.start() {
		return
	}
	defer func() {
		if h.auth != nil {
			func() {
				defer func() { _ = recover() }()
				h.auth.Close()
			}()
		}
	}()
	if h.cfg.Family == "many-addresses" {
		h.runMany()
		return
	}
	nSteps := 25 + h.rng.Intn(40)
	for i := 0; i < nSteps && !h.dead; i++ {
		if h.rng.Intn(10) < 3 {
			h.cur = h.rng.Intn(len(h.addrs))
		}
		r := h.rng.Intn(100)
		switch {
		case r < 34:
			h.login(h.cur, c12WrongKinds[h.rng.Intn(len(c12WrongKinds))])
		case r < 48:
			h.login(h.cur, "right")
		case r < 65:
			h.authReq()
		case r < 71:
			h.logout()
		case r < 89:
			h.advance()
		case r < 95:
			h.basicReq(h.cur)
		case r < 98:
			if h.rng.Intn(4) == 0 {
				h.restartDamaged(c12Damages[h.rng.Intn(len(c12Damages))])
			} else {
				h.restart()
			}
		case r < 99:
			h.injectFault()
		default:
			if h.rng.Intn(2) == 0 {
				h.injectFault()
			} else {
				h.damageScenario()
			}
		}
	}
}

func c12Pick[T any](rng *rand.Rand, xs ...T) T { return xs[rng.Intn(len(xs))] }

// c12Filler is the j-th filler address of the many-addresses family: IPv4 for
// even j, an address of one IPv6 /64 for odd j.
func c12Filler(j int) string {
	if j%2 == 0 {
		return fmt.Sprintf("10.%d.%d.%d", 1+(j>>16), (j>>8)&255, j&255)
	}
	return fmt.Sprintf("2001:db8:1::%x", j+1)
}

func (h *c12Hist) sleep(d int64, why string) {
	if d <= 0 {
		return
	}
	h.canon = append(h.canon, fmt.Sprintf("T%d", d))
	h.step("advance", "", fmt.Sprintf("+%ds (%s)", d, why))
	time.Sleep(time.Duration(d) * time.Second)
	h.rep.Event("clock_advances")
}

// runMany is the scripted family "many-addresses": Tracked distinct filler
// addresses make one failed login each within a few seconds (so that the
// limiter tracks all of them at once), then a further address (the target,
// h.addrs[0]) reaches the attempt limit and tries again with bad and good
// credentials inside its block period; three of the fillers are driven to the
// limit as well.  All checks are those of login().
func (h *c12Hist) runMany() {
	n, max, block := h.cfg.Tracked, h.cfg.Max, h.cfg.BlockS
	h.rep.Event("many_address_histories")
	h.rep.EventN("many_address_filler_addresses", n)
	bad := []string{"unknown-user", "unknown-user", "wrong-password", "empty-password", "other-users-password"}
	for i := 1; i <= n && !h.dead; i++ {
		h.login(i, bad[h.rng.Intn(len(bad))])
		if i%250 == 0 {
			h.sleep(1, "many-addresses: pace")
		}
	}
	h.sleep(2, "many-addresses: all fillers have a recent failure")
	for j := 0; j < max && !h.dead; j++ {
		h.login(0, bad[h.rng.Intn(len(bad))])
	}
	tLast := h.now()
	seq := []string{"wrong-password", "right"}
	if h.rng.Intn(2) == 0 {
		seq = []string{"right", "wrong-password"}
	}
	for _, k := range seq {
		if !h.dead {
			h.login(0, k)
		}
	}
	probes := []int{1, 1 + n/2, n}
	for _, fi := range probes {
		for j := 0; j < max-1 && !h.dead; j++ {
			h.login(fi, bad[h.rng.Intn(len(bad))])
		}
		if !h.dead {
			h.login(fi, "right")
		}
	}
	h.sleep(tLast+block-1-h.now(), "many-addresses: 1 s before the end of the target's block")
	for _, k := range []string{"right", "unknown-user"} {
		if !h.dead {
			h.login(0, k)
		}
	}
	for _, fi := range probes {
		if !h.dead {
			h.login(fi, "right")
		}
	}
	h.sleep(2, "many-addresses: 1 s after the end of the target's block")
	if !h.dead {
		h.login(0, "right")
	}
}

func TestVerifC12(t *testing.T) {
	rep := verifkit.New("C12", "auth",
		"case = one timed history (attempt limit, block duration, session TTL, 1-4 client addresses, 25-64 steps: bad/good logins, requests with session cookies, logouts, clock advances around window/block/expiry edges, restarts) run through the real handleLogin/optionalAuth/handleLogout on virtual time; non-trivial = the history contains at least one login attempt inside a certain block period or one request with a token after its expiry or logout; distinct by (configuration, step sequence)")
	defer func() {
		if err := rep.Write(); err != nil {
			t.Fatal(err)
		}
	}()
	rep.Assume("all instants are whole virtual seconds; no step falls exactly on a window, block or expiry edge (edges are probed at -1 s and +1 s)")
	rep.Assume("throttle state across a restart is not specified: a restart installs a fresh rate limiter, as the product does")
	rng := rep.Rand("main")
	n := verifkit.Pick(1500, 30000)

	dir, err := os.MkdirTemp(os.Getenv("VERIF_SCRATCH"), "c12-")
	if err != nil {
		rep.Inconcl("no scratch directory: " + err.Error())
		return
	}
	defer os.RemoveAll(dir)

	users := []c12User{{"admin", "pw-admin"}, {"bob", "pw-bob"}}
	var web []webUser
	for _, u := range users {
		hash, herr := bcrypt.GenerateFromPassword([]byte(u.pw), bcrypt.MinCost)
		if herr != nil {
			rep.Inconcl("bcrypt: " + herr.Error())
			return
		}
		web = append(web, webUser{Name: u.name, PasswordHash: string(hash)})
	}

	oldAuth, oldGL := globalContext.auth, GLMode
	GLMode = false
	defer func() { globalContext.auth, GLMode = oldAuth, oldGL }()

	ipPool := []string{"192.0.2.1", "192.0.2.2", "198.51.100.7", "203.0.113.9", "10.0.0.5", "2001:db8::1", "2001:db8::2", "fe80::1", "127.0.0.1", "::1"}

	// The scripted family "many-addresses" follows the random histories: the
	// number of addresses with a live failure record is drawn just above
	// typical power-of-two bounds.
	nMany := verifkit.Pick(10, 50)
	manyLevels := []int{100, 300, 520, 1100, 2100}
	rngMany := rep.Rand("many-addresses")
	for i := 0; i < n+nMany; i++ {
		many := i >= n
		var hr *rand.Rand
		if many {
			hr = rand.New(rand.NewSource(rngMany.Int63()))
		} else {
			hr = rand.New(rand.NewSource(rng.Int63()))
		}
		cfg := c12Cfg{
			Max:    c12Pick(hr, 1, 2, 3, 3, 5),
			BlockS: c12Pick[int64](hr, 30, 900),
			TTLS:   c12Pick[int64](hr, 60, 3600, 30*86400),
		}
		var fillers []string
		if many {
			level := manyLevels[(i-n)%len(manyLevels)]
			cfg.Family, cfg.Tracked = "many-addresses", level+hr.Intn(40)
			cfg.Trusted = c12TrustedSets[0]
			cfg.Addrs = []string{"198.51.100.77"}
			for j := 0; j < cfg.Tracked; j++ {
				fillers = append(fillers, c12Filler(j))
			}
			rep.Class(fmt.Sprintf("family=many-addresses tracked~%d", level))
		} else {
			cfg.Trusted = c12TrustedSets[hr.Intn(len(c12TrustedSets))]
			perm := hr.Perm(len(ipPool))
			for _, j := range perm[:1+hr.Intn(4)] {
				cfg.Addrs = append(cfg.Addrs, ipPool[j])
			}
		}
		switch hr.Intn(10) {
		case 0, 1, 2:
			cfg.StartOff = 0
		case 3, 4, 5:
			// shortly before a UTC midnight, where the daily refresh of the
			// expiry happens for short TTLs
			span := cfg.TTLS
			if span > 3600 {
				span = 3600
			}
			cfg.StartOff = 86400*int64(1+hr.Intn(3)) - 1 - hr.Int63n(2*span)
		default:
			cfg.StartOff = hr.Int63n(5 * 86400)
		}
		h := &c12Hist{rep: rep, rng: hr, cfg: cfg, users: users, web: web, force: -1,
			file: filepath.Join(dir, fmt.Sprintf("sessions-%d.db", i))}
		for _, p := range cfg.Trusted {
			h.trusted = append(h.trusted, netip.MustParsePrefix(p))
		}
		if h.trusted == nil {
			h.trusted = netutil.SliceSubnetSet{}
		}
		rep.Class(fmt.Sprintf("trusted_proxies=%d", len(cfg.Trusted)))
		for _, ip := range append(append([]string{}, cfg.Addrs...), fillers...) {
			a := &c12AddrState{ip: ip}
			a.reset()
			h.addrs = append(h.addrs, a)
		}
		synctest.Run(h.run)
		_ = os.Remove(h.file)
		globalContext.auth = oldAuth

		rep.Eval(h.sawBlockCheck || h.sawSessReject, verifkit.JSON(cfg)+"|"+strings.Join(h.canon, ","))
		rep.Class(fmt.Sprintf("max=%d", cfg.Max))
		rep.Class(fmt.Sprintf("block=%ds", cfg.BlockS))
		rep.Class(fmt.Sprintf("ttl=%ds", cfg.TTLS))
		rep.Class(fmt.Sprintf("addresses=%d", len(cfg.Addrs)))
		if h.sawBlockCheck {
			rep.Class("histories_with_block_check")
		}
		if h.sawSessReject {
			rep.Class("histories_with_expired_or_logged_out_token_check")
		}
		if i < 3 || i == n {
			tr := h.trace
			if len(tr) > 30 {
				tr = tr[:30]
			}
			rep.Sample(map[string]any{"config": cfg, "first_steps": tr})
		}
		if len(rep.Inconclusive) > 0 {
			return
		}
	}

	c12BlockSweep(rep, dir, web)
	globalContext.auth = oldAuth

	// The run is conclusive only if the interesting events were observed.
	need := map[string]int{
		"block_enforced_checks":                                         verifkit.Pick(100, 2000),
		"block_enforced_on_right_password":                              verifkit.Pick(20, 400),
		"certain_runs_reaching_limit":                                   verifkit.Pick(100, 2000),
		"success_clearing_a_count":                                      verifkit.Pick(50, 1000),
		"session_must_accept_checks":                                    verifkit.Pick(200, 4000),
		"session_must_accept_checks_after_restart":                      verifkit.Pick(20, 400),
		"session_reject_checks_after_expiry":                            verifkit.Pick(50, 1000),
		"session_reject_checks_after_logout":                            verifkit.Pick(50, 1000),
		"session_reject_checks_after_logout_and_restart":                verifkit.Pick(5, 100),
		"unknown_token_checks":                                          verifkit.Pick(100, 2000),
		"restarts":                                                      verifkit.Pick(100, 2000),
		"session_reject_checks_after_logout_and_start_on_a_damaged_db":  verifkit.Pick(30, 600),
		"starts_refused_on_a_damaged_db:meta-pages-zeroed":              verifkit.Pick(30, 600),
		"sweep_attempts_in_the_last_second_of_a_block":                  verifkit.Pick(200, 2000),
		"sweep_attempts_in_the_last_millisecond_of_a_block":             verifkit.Pick(50, 500),
		"session_reject_checks_after_client_aborted_logout_and_restart": verifkit.Pick(30, 600),
		"session_reject_checks_after_logout_during_storage_fault":       verifkit.Pick(50, 1000),
		"block_enforced_after_right_basic_credentials_inside_block":     verifkit.Pick(30, 600),
		"logouts_with_several_session_cookies":                          verifkit.Pick(20, 400),
		"session_reject_checks_after_logout_with_several_cookies":       verifkit.Pick(10, 200),
		"logout_requests_with_several_session_cookies":                  verifkit.Pick(50, 1000),
		"right_password_logins_carrying_a_session_cookie:expired-own":   verifkit.Pick(30, 600),
		"right_password_logins_carrying_a_session_cookie:live-own":      verifkit.Pick(20, 400),
		"block_enforced_checks_on_new_address_with_512+_tracked":        verifkit.Pick(10, 50),
		"logins_claiming_trusted_address_from_untrusted_peer":           verifkit.Pick(300, 6000),
		"certain_runs_with_claimed_trusted_address_reaching_limit":      verifkit.Pick(50, 1000),
		"block_enforced_on_attempt_claiming_trusted_address":            verifkit.Pick(50, 1000),
	}
	if !rep.Violated() {
		var low []string
		for k, v := range need {
			if rep.Events[k] < v {
				low = append(low, fmt.Sprintf("%s=%d<%d", k, rep.Events[k], v))
			}
		}
		sort.Strings(low)
		if len(low) > 0 {
			rep.Inconcl("too few monitor events: " + strings.Join(low, ", "))
		}
	}
}

// c12BlockSweep is the scripted family "block-sweep": on virtual time, one
// address reaches the attempt limit from a clean state and then tries the
// right and a wrong password at instants spread over the whole block period,
// with nanosecond resolution near its end (the random histories use whole
// seconds only).  "Rejected until the block period has elapsed" must hold at
// every instant before the end, decided on the limiter's own clock.  After the
// end nothing but "the right password is never answered 403" is asserted.
func c12BlockSweep(rep *verifkit.Report, dir string, web []webUser) {
	rng := rep.Rand("block-sweep")
	n := verifkit.Pick(60, 600)
	for i := 0; i < n; i++ {
		max := c12Pick(rng, 1, 2, 3, 5)
		block := c12Pick(rng, 30*time.Second, time.Minute, 15*time.Minute, time.Duration(2+rng.Intn(58))*time.Minute)
		startOff := time.Duration(rng.Int63n(int64(48 * time.Hour)))
		gaps := make([]time.Duration, max)
		for j := 1; j < max; j++ {
			gaps[j] = time.Duration(rng.Int63n(int64(10 * time.Second)))
		}
		// Offsets from the failure that reaches the limit, ascending.
		offs := []time.Duration{1, time.Millisecond, 500 * time.Millisecond, time.Second, block / 4, block / 2,
			block - 2*time.Second, block - time.Second - time.Millisecond, block - time.Second,
			block - 999*time.Millisecond, block - 750*time.Millisecond, block - 500*time.Millisecond,
			block - 100*time.Millisecond, block - time.Millisecond, block - time.Microsecond, block - 1}
		for j := 0; j < 6; j++ {
			offs = append(offs, time.Duration(rng.Int63n(int64(block))))
		}
		for j := 0; j < 4; j++ {
			offs = append(offs, block-time.Duration(1+rng.Int63n(int64(time.Second))))
		}
		sort.Slice(offs, func(x, y int) bool { return offs[x] < offs[y] })
		ip := c12Pick(rng, "192.0.2.44", "2001:db8::44", "203.0.113.44")
		file := filepath.Join(dir, fmt.Sprintf("sessions-sweep-%d.db", i))
		type probe struct {
			Off    string `json:"offset_from_the_limit_reaching_failure"`
			Left   string `json:"time_before_the_end_of_the_block"`
			Pw     string `json:"password"`
			Status int    `json:"status"`
		}
		var trace []probe
		var inconcl string
		h := &c12Hist{rep: rep, rng: rng, force: -1}
		synctest.Run(func() {
			if !time.Now().Equal(c12Epoch) {
				inconcl = "virtual clock not available"
				return
			}
			time.Sleep(startOff)
			a := InitAuth(file, web, 3600, newAuthRateLimiter(block, uint(max)), netutil.SliceSubnetSet{})
			if a == nil {
				inconcl = "InitAuth returned nil"
				return
			}
			defer a.Close()
			globalContext.auth = a
			raddr := func() string { return h.remoteAddr(ip) }
			for j := 0; j < max; j++ {
				time.Sleep(gaps[j])
				if st, _, _, _, _ := h.doLogin(raddr(), "admin", "pw-adminx", nil, nil); st != http.StatusForbidden {
					rep.Violate("throttle:blocked-without-run:block-sweep", fmt.Sprintf("failure %d of %d from a clean state was answered %d", j+1, max, st),
						map[string]any{"max_attempts": max, "block": block.String()})
					return
				}
			}
			t0 := time.Now()
			viol := func(key, what string) {
				rep.Violate(key, what, map[string]any{"max_attempts": max, "block": block.String(), "address": ip,
					"start_of_history": c12Epoch.Add(startOff).Format(time.RFC3339Nano), "gaps_between_the_failures": fmt.Sprint(gaps),
					"attempts_after_the_limit_was_reached": trace,
					"note":                                 "virtual time (testing/synctest); the address made max_attempts failed logins from a clean state, the last of them at offset 0"})
			}
			for _, off := range offs {
				time.Sleep(off - time.Since(t0))
				for _, pw := range []string{"right", "wrong"} {
					if off > time.Second && off < block-time.Second && rng.Intn(2) == 0 {
						continue
					}
					p := "pw-admin"
					if pw == "wrong" {
						p = "pw-adminx"
					}
					st, _, hasCookie, _, pan := h.doLogin(raddr(), "admin", p, nil, nil)
					left := block - time.Since(t0)
					trace = append(trace, probe{time.Since(t0).String(), left.String(), pw, st})
					rep.Event("sweep_attempts_inside_a_block")
					region := "inside-the-block-period"
					if left <= time.Second {
						region = "last-second-of-the-block-period"
						rep.Event("sweep_attempts_in_the_last_second_of_a_block")
					}
					if left <= time.Millisecond {
						rep.Event("sweep_attempts_in_the_last_millisecond_of_a_block")
					}
					switch {
					case pan != nil:
						viol("panic:login", fmt.Sprintf("handleLogin panicked: %v", pan))
						return
					case st == http.StatusTooManyRequests && !hasCookie:
					case st == http.StatusOK:
						viol("throttle:accepted-in-block:block-sweep:"+region,
							fmt.Sprintf("the right password was accepted %s before the end of the block period", left))
						return
					default:
						viol("throttle:evaluated-in-block:block-sweep:"+region,
							fmt.Sprintf("a login was answered %d %s before the end of the block period", st, left))
						return
					}
				}
			}
			// After the end: the right password is never answered 403.
			time.Sleep(block + c12Pick(rng, time.Nanosecond, time.Millisecond, time.Second) - time.Since(t0))
			st, _, _, _, _ := h.doLogin(raddr(), "admin", "pw-admin", nil, nil)
			trace = append(trace, probe{time.Since(t0).String(), (block - time.Since(t0)).String(), "right", st})
			rep.Event(fmt.Sprintf("sweep_right_password_after_the_block:%d", st))
			if st == http.StatusForbidden {
				viol("login:right-password-rejected-403:block-sweep", "the right password was answered 403 after the block period")
			}
		})
		_ = os.Remove(file)
		if inconcl != "" {
			rep.Inconcl(inconcl)
			return
		}
		rep.Event("block_sweep_histories")
		rep.Eval(true, fmt.Sprintf("sweep|%d|%s|%s|%v|%v", max, block, startOff, gaps, offs))
		rep.Class(fmt.Sprintf("family=block-sweep max=%d", max))
		if i == 0 {
			rep.Sample(map[string]any{"family": "block-sweep", "max_attempts": max, "block": block.String(), "attempts": trace})
		}
	}
}
