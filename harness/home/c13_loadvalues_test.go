//go:build verif

package home

import (
	"fmt"
	"os"
	"sort"
	"strconv"
	"strings"
	"testing"

	"github.com/AdguardTeam/AdGuardHome/internal/verifkit"
	yaml "gopkg.in/yaml.v3"
)

// Value-interaction section of C13's part "load".
//
// The loader must accept the upgraded document of every valid old file.  A
// migration step may introduce values of its own (step 25 writes the pprof
// port 6060, step 10 the QUIC port 784, steps 12/15/16/20 default intervals);
// the input may use the very same values in other settings where they are
// valid.  Here one golden of every historical version gets its port settings
// rewritten: the HTTP port (bind_port / http.address), dns.port, the four
// tls.port_* settings with tls.enabled on or off, and debug_pprof (<= 24) /
// http.pprof (>= 25) on or off.  Values come from the constants the steps
// write plus the usual suspects.  The document goes through real parseConfig.
//
// Oracle: if the ports the INPUT sets explicitly are pairwise distinct by the
// loader's own rule (validateConfig: TCP = HTTP + with TLS on HTTPS, DoT,
// DNSCrypt; UDP = DNS + with TLS on DoQ; zero ignored; an explicit pprof port
// of the input counts as TCP when pprof is on), the loader must accept the
// upgraded document.  A clash among the input's own values is the user's
// error: unspecified zone, counted, nothing asserted.

// c13LoadStepPorts are the port constants the steps write (v10.go, v25.go).
var c13LoadStepPorts = []int{6060, 784}

var c13LoadSuspectPorts = []int{53, 80, 443, 784, 853, 3000, 5443, 6060, 8853}

type c13LoadPorts struct {
	HTTP, DNS, HTTPS, DoT, DoQ, DNSCrypt int
	// Pprof is the explicit pprof port of the input (schema >= 25 only).
	Pprof        int
	TLS, PprofOn bool
}

func (p c13LoadPorts) String() string {
	return fmt.Sprintf("http=%d dns=%d tls=%v https=%d dot=%d doq=%d dnscrypt=%d pprof_on=%v pprof_port=%d",
		p.HTTP, p.DNS, p.TLS, p.HTTPS, p.DoT, p.DoQ, p.DNSCrypt, p.PprofOn, p.Pprof)
}

// clash reports whether the input's explicit ports collide under the loader's
// rule.
func (p c13LoadPorts) clash() bool {
	dup := func(l []int) bool {
		seen := map[int]bool{}
		for _, v := range l {
			if v == 0 {
				continue
			}
			if seen[v] {
				return true
			}
			seen[v] = true
		}
		return false
	}
	tcp := []int{p.HTTP}
	udp := []int{p.DNS}
	if p.TLS {
		tcp = append(tcp, p.HTTPS, p.DoT, p.DNSCrypt)
		udp = append(udp, p.DoQ)
	}
	if p.PprofOn && p.Pprof != 0 {
		tcp = append(tcp, p.Pprof)
	}
	return dup(tcp) || dup(udp)
}

// c13LoadApplyPorts writes the settings into a decoded document of schema
// version from.  ok is false if the document has no place for them.
func c13LoadApplyPorts(tree map[string]any, from int, p c13LoadPorts) (ok bool) {
	asMap := func(v any) map[string]any { m, _ := v.(map[string]any); return m }
	if from < 23 {
		if _, has := tree["bind_host"].(string); !has {
			return false
		}
		tree["bind_port"] = p.HTTP
	} else {
		h := asMap(tree["http"])
		if h == nil {
			return false
		}
		host := "127.0.0.1"
		if a, isStr := h["address"].(string); isStr {
			if i := strings.LastIndex(a, ":"); i > 0 {
				host = a[:i]
			}
		}
		h["address"] = host + ":" + strconv.Itoa(p.HTTP)
	}
	dns := asMap(tree["dns"])
	if from < 2 {
		if c := asMap(tree["coredns"]); c != nil {
			dns = c
		}
	}
	if dns == nil {
		return false
	}
	dns["port"] = p.DNS
	tls := asMap(tree["tls"])
	if tls == nil {
		tls = map[string]any{}
		tree["tls"] = tls
	}
	tls["enabled"] = p.TLS
	tls["port_https"] = p.HTTPS
	tls["port_dns_over_tls"] = p.DoT
	tls["port_dns_over_quic"] = p.DoQ
	tls["port_dnscrypt"] = p.DNSCrypt
	if from < 25 {
		tree["debug_pprof"] = p.PprofOn
	} else {
		asMap(tree["http"])["pprof"] = map[string]any{"enabled": p.PprofOn, "port": p.Pprof}
	}
	return true
}

func c13LoadErrClass(err error) string {
	s := err.Error()
	switch {
	case strings.Contains(s, "validating tcp ports"):
		return "tcp-port-clash"
	case strings.Contains(s, "validating udp ports"):
		return "udp-port-clash"
	case strings.Contains(s, "migrating schema"):
		return "upgrade-error"
	case strings.Contains(s, "not a valid ip address"):
		return "bind-host"
	case strings.Contains(s, "unmarshal") || strings.Contains(s, "yaml:"):
		return "decode"
	default:
		return "other"
	}
}

func c13LoadValues(t *testing.T, rep *verifkit.Report, docs []c13LoadDoc, last int) {
	rng := rep.Rand("value-interaction")
	// One unchanged golden per historical version (inputs preferred).
	base := map[int]c13LoadDoc{}
	for _, d := range docs {
		if d.Variant != "unchanged" {
			continue
		}
		v, isInt := c13LoadVersion(d.Body).(int)
		if !isInt || v >= last {
			continue
		}
		if _, has := base[v]; !has || strings.HasSuffix(d.Name, "input.yml") {
			base[v] = d
		}
	}
	versions := make([]int, 0, len(base))
	for v := range base {
		versions = append(versions, v)
	}
	sort.Ints(versions)

	filler := func() c13LoadPorts {
		return c13LoadPorts{HTTP: 10080, DNS: 10053, HTTPS: 10443, DoT: 10853, DoQ: 10784, DNSCrypt: 15443, Pprof: 16060}
	}
	keys := []string{"http", "dns", "https", "dot", "doq", "dnscrypt", "pprof"}
	set := func(p *c13LoadPorts, k string, v int) {
		switch k {
		case "http":
			p.HTTP = v
		case "dns":
			p.DNS = v
		case "https":
			p.HTTPS = v
		case "dot":
			p.DoT = v
		case "doq":
			p.DoQ = v
		case "dnscrypt":
			p.DNSCrypt = v
		case "pprof":
			p.Pprof = v
		}
	}
	for _, from := range versions {
		d := base[from]
		var combos []c13LoadPorts
		// Systematic: one port setting takes a value, all others are far away.
		vals := append([]int{}, c13LoadStepPorts...)
		if verifkit.Thorough() {
			vals = c13LoadSuspectPorts
		}
		for _, k := range keys {
			if k == "pprof" && from < 25 {
				continue
			}
			for _, v := range vals {
				for _, on := range []bool{true, false} {
					if !on && !verifkit.Thorough() && k != "http" {
						continue // quick: the pprof-off control only for the HTTP port
					}
					p := filler()
					set(&p, k, v)
					p.PprofOn = on
					p.TLS = k == "https" || k == "dot" || k == "doq" || k == "dnscrypt" || (verifkit.Thorough() && on)
					combos = append(combos, p)
				}
			}
		}
		// Random: every port from the suspects (pairwise equalities of all kinds).
		for i := 0; i < verifkit.Pick(3, 60); i++ {
			p := filler()
			for _, k := range keys {
				if rng.Intn(4) != 0 {
					set(&p, k, c13LoadSuspectPorts[rng.Intn(len(c13LoadSuspectPorts))])
				}
			}
			p.TLS = rng.Intn(3) != 0
			p.PprofOn = rng.Intn(3) != 0
			combos = append(combos, p)
		}
		for _, p := range combos {
			var tree map[string]any
			if yaml.Unmarshal(d.Body, &tree) != nil || tree == nil || !c13LoadApplyPorts(tree, from, p) {
				rep.Event("value_interaction_document_not_applicable")
				continue
			}
			if from < 25 {
				p.Pprof = 0 // not set by the input
			}
			body, err := yaml.Marshal(tree)
			if err != nil {
				continue
			}
			path := c13LoadSetup(t, body)
			o := c13LoadRun()
			rep.Eval(true, "values|"+string(body))
			rep.Class("value-interaction:ports")
			if p.PprofOn && from < 25 {
				rep.Class("value-interaction:debug_pprof-on-before-step-25")
			}
			wit := func() map[string]any {
				after, _ := os.ReadFile(path)
				return map[string]any{"golden": d.Name, "stated_version": from, "ports_set_in_the_input": p.String(),
					"document": c13LoadHead(body), "file_after": c13LoadHead(after)}
			}
			clash := p.clash()
			switch {
			case o.Panicked:
				w := wit()
				w["stack"] = o.Stack
				rep.Violate("load:panic:value-interaction", "the loader panicked: "+o.PanicVal, w)
			case clash:
				rep.Unspec("input's own ports clash under the loader's rule (accepted or refused, nothing asserted)")
				if o.Err != nil {
					rep.Event("value_interaction_own_clash_refused")
				}
			case o.Err != nil:
				rep.Violate("load:upgraded-document-refused:"+c13LoadErrClass(o.Err),
					fmt.Sprintf("the ports the input sets are pairwise distinct (%s) but the loader refuses the upgraded document: %v", p, o.Err), wit())
			default:
				rep.Event("value_interaction_accepted")
				if int(config.HTTPConfig.Address.Port()) != p.HTTP || int(config.DNS.Port) != p.DNS {
					rep.Violate("load:upgraded-document-port-changed",
						fmt.Sprintf("input sets http=%d dns=%d, the loaded configuration has http=%d dns=%d", p.HTTP, p.DNS, config.HTTPConfig.Address.Port(), config.DNS.Port), wit())
				}
				for _, sp := range c13LoadStepPorts {
					if (p.HTTP == sp || (p.TLS && (p.HTTPS == sp || p.DoT == sp || p.DNSCrypt == sp))) && p.PprofOn && from < 25 {
						rep.Event("value_interaction_accepted_with_input_port_equal_to_step_constant")
					}
				}
			}
		}
	}
	if rep.Events["value_interaction_accepted"] < 200 && !rep.Violated() {
		rep.Inconcl(fmt.Sprintf("only %d value-interaction documents were accepted", rep.Events["value_interaction_accepted"]))
	}
	if rep.Events["value_interaction_accepted_with_input_port_equal_to_step_constant"] < 20 && !rep.Violated() {
		rep.Inconcl("too few documents whose own TCP port equals a port constant written by a step (with debug_pprof on)")
	}
}
