//go:build verif

package client_test

import (
	"context"
	"fmt"
	"math/rand"
	"net"
	"net/netip"
	"os"
	"path/filepath"
	"slices"
	"sort"
	"strings"
	"testing"
	"time"

	"github.com/AdguardTeam/AdGuardHome/internal/client"
	"github.com/AdguardTeam/AdGuardHome/internal/dhcpsvc"
	"github.com/AdguardTeam/AdGuardHome/internal/filtering"
	"github.com/AdguardTeam/AdGuardHome/internal/schedule"
	"github.com/AdguardTeam/AdGuardHome/internal/verifkit"
	"github.com/AdguardTeam/golibs/logutil/slogutil"
)

// ---------------------------------------------------------------------------
// Fakes.

// c04DHCP is the scripted DHCP fake: a lease table address -> MAC that the
// history changes between steps.
type c04DHCP struct {
	leases map[netip.Addr]net.HardwareAddr
	calls  int
}

func (d *c04DHCP) Leases() (leases []*dhcpsvc.Lease)   { return nil }
func (d *c04DHCP) HostByIP(_ netip.Addr) (host string) { return "" }
func (d *c04DHCP) MACByIP(ip netip.Addr) (mac net.HardwareAddr) {
	d.calls++
	m, ok := d.leases[ip]
	if !ok {
		return nil
	}

	return slices.Clone(m)
}

// c04SafeSearch is a recognisable filtering.SafeSearch value.
type c04SafeSearch struct{ id string }

func (*c04SafeSearch) CheckHost(_ context.Context, _ string, _ uint16) (filtering.Result, error) {
	return filtering.Result{}, nil
}
func (*c04SafeSearch) Update(_ context.Context, _ filtering.SafeSearchConfig) error { return nil }

// ---------------------------------------------------------------------------
// Identifier pool.

var c04Names = []string{"alpha", "bravo", "charlie", "delta", "echo", "foxtrot", "golf", "hotel"}

// One allowed tag and one real blocked-service id per client name, so that the
// settings ApplyClientFiltering writes are recognisable.
var c04TagOf = map[string]string{
	"alpha": "device_pc", "bravo": "device_phone", "charlie": "device_tv", "delta": "os_linux",
	"echo": "os_ios", "foxtrot": "user_child", "golf": "user_admin", "hotel": "device_nas",
}
var c04SvcOf = map[string]string{
	"alpha": "youtube", "bravo": "facebook", "charlie": "twitter", "delta": "instagram",
	"echo": "tiktok", "foxtrot": "netflix", "golf": "reddit", "hotel": "discord",
}
var c04ExtraTags = []string{"os_android", "user_regular", "device_other"}
var c04GlobalSvcs = []string{"amazon", "ebay"}

// Exact addresses usable as client identifiers.
var c04PoolIPs = []string{
	"10.1.1.1",        // in /8 /16 /24 /25 /32
	"10.1.1.2",        // in /8 /16 /24 /25
	"10.1.2.1",        // in /8 /16
	"10.2.0.1",        // in /8, 10.2/16
	"192.168.5.5",     // in 192.168/16
	"172.16.0.9",      // in nothing but /0
	"2001:db8:1:1::1", // in /32 /48 /64 /128
	"2001:db8:1:2::1", // in /32 /48
	"2001:db8:2::1",   // in /32
	"fd00::1",         // in fd00::/8
	"fe80::1%eth0",    // zoned, in fe80::/64
}

// Nested, partly equal-length, cross-family CIDRs, all in canonical (masked)
// spelling.
var c04PoolNets = []string{
	"10.0.0.0/8", "10.1.0.0/16", "10.2.0.0/16", "10.1.1.0/24", "10.1.1.0/25", "10.1.1.1/32",
	"192.168.0.0/16", "0.0.0.0/0",
	"2001:db8::/32", "2001:db8:1::/48", "2001:db8:1:1::/64", "2001:db8:1:1::1/128",
	"fd00::/8", "fe80::/64",
}

// MACs of 6, 8 and 20 bytes; the longer ones share their first bytes with a
// shorter one.  8-byte MACs are spelled with hyphens because the colon
// spelling of an 8-byte MAC is also a valid IPv6 address.
var c04PoolMACs = []string{
	"aa:aa:aa:aa:aa:01",
	"aa:aa:aa:aa:aa:02",
	"02:00:5e:00:53:01",
	"aa-aa-aa-aa-aa-01-00-00",
	"02-00-5e-10-00-00-00-01",
	"aa:aa:aa:aa:aa:01:00:00:00:00:00:00:00:00:00:00:00:00:00:00",
	"00:00:00:00:fe:80:00:00:00:00:00:00:02:00:5e:10:00:00:00:01",
}

var c04PoolCIDs = []string{"cid-a", "cid-b", "cid-c", "c1", "laptop"}

// Spellings whose treatment the statement leaves open.  Operations that use
// them are followed, not judged.
var c04Variants = []string{
	"10.1.1.77/24",      // non-canonical spelling of a /24 that overlaps 10.1.1.0/24
	"10.1.9.9/16",       // non-canonical /16
	"AA-AA-AA-AA-AA-02", // other spelling of a pool MAC
	"CID-A",             // other letter case of a pool ClientID
}

// Addresses probed after every step in addition to the pool IPs: inside some
// CIDRs only.
var c04ExtraAddrs = []string{
	"10.9.9.9", "10.1.9.9", "10.2.7.7", "10.1.1.200", "10.1.1.100", "192.168.0.1", "8.8.8.8",
	"2001:db8:1:1::99", "2001:db8:1:9::1", "2001:db8:9::1", "fd12::5", "fe80::1", "fe80::2%eth1", "2a00::1",
}

type c04ID struct {
	spell   string
	kind    string // ip, net, mac, cid
	ip      netip.Addr
	net     netip.Prefix
	mac     string // raw bytes as string
	cid     string
	variant bool
}

func c04ParseID(s string, variant bool) c04ID {
	id := c04ID{spell: s, variant: variant}
	if a, err := netip.ParseAddr(s); err == nil {
		id.kind, id.ip = "ip", a
	} else if p, err := netip.ParsePrefix(s); err == nil {
		id.kind, id.net = "net", p
	} else if m, err := net.ParseMAC(s); err == nil {
		id.kind, id.mac = "mac", string(m)
	} else {
		id.kind, id.cid = "cid", strings.ToLower(s)
	}
	return id
}

// ---------------------------------------------------------------------------
// Model.

// c04Spec is what the generator decides for one client version.
type c04Spec struct {
	Name         string   `json:"name"`
	IDs          []string `json:"ids"`
	OwnSettings  bool     `json:"use_own_settings"`
	Filtering    bool     `json:"filtering"`
	SafeBrowsing bool     `json:"safebrowsing"`
	Parental     bool     `json:"parental"`
	SafeSearch   bool     `json:"safesearch"`
	// SafeSearchObject says whether Persistent.SafeSearch is set.  The
	// production constructors (home.clientObject.toPersistent, jsonToClient)
	// build the object exactly when the client's own safe search is enabled.
	SafeSearchObject bool     `json:"safesearch_object_present"`
	OwnServices      bool     `json:"use_own_blocked_services"`
	Services         []string `json:"services"`
	// ServicesPaused: the client's own blocked-services pause schedule covers
	// the whole week (schedule.FullWeekly) instead of nothing (EmptyWeekly);
	// both are independent of the clock.
	ServicesPaused bool     `json:"own_services_schedule_pausing"`
	Tags           []string `json:"tags"`
}

// c04Client is a client of the shadow model.
type c04Client struct {
	uid   int
	spec  c04Spec
	ips   []netip.Addr
	nets  []netip.Prefix
	macs  []string
	cids  []string
	idset []string // sorted canonical renderings, as Persistent.IDs() gives them
	tags  []string // sorted
	ss    *c04SafeSearch
}

func (c *c04Client) ownsIP(a netip.Addr) bool    { return slices.Contains(c.ips, a) }
func (c *c04Client) ownsNet(p netip.Prefix) bool { return slices.Contains(c.nets, p) }
func (c *c04Client) ownsMAC(m string) bool       { return slices.Contains(c.macs, m) }
func (c *c04Client) ownsCID(s string) bool       { return slices.Contains(c.cids, s) }
func (c *c04Client) bestNet(a netip.Addr) (b int) {
	b = -1
	a = a.WithZone("")
	for _, p := range c.nets {
		if p.Contains(a) && p.Bits() > b {
			b = p.Bits()
		}
	}
	return b
}

func (c *c04Client) view() map[string]any {
	return map[string]any{"name": c.spec.Name, "ids": c.idset, "settings": c.spec}
}

type c04Op struct {
	Step     int      `json:"step"`
	Kind     string   `json:"kind"`
	Variant  string   `json:"variant,omitempty"`
	Target   string   `json:"target_name,omitempty"`
	Client   *c04Spec `json:"client,omitempty"`
	Lease    string   `json:"lease,omitempty"`
	Expected string   `json:"model_expects"`
	Result   string   `json:"result"`
}

var c04UIDCounter uint64

func c04NextUID() (u client.UID) {
	c04UIDCounter++
	n := c04UIDCounter
	u[0] = 0xc4
	for i := 0; i < 8; i++ {
		u[15-i] = byte(n >> (8 * i))
	}
	return u
}

// c04Sched returns a pause schedule that pauses always or never.
func c04Sched(pausing bool) *schedule.Weekly {
	if pausing {
		return schedule.FullWeekly()
	}
	return schedule.EmptyWeekly()
}

// c04Build makes a fresh product client and the matching model client from
// a spec.  Nothing is shared between the two or with the spec.
func c04Build(spec c04Spec) (p *client.Persistent, m *c04Client, err error) {
	ss := &c04SafeSearch{id: spec.Name}
	p = &client.Persistent{
		Name: spec.Name,
		UID:  c04NextUID(),
		BlockedServices: &filtering.BlockedServices{
			Schedule: c04Sched(spec.ServicesPaused),
			IDs:      slices.Clone(spec.Services),
		},
		Tags:                  slices.Clone(spec.Tags),
		SafeSearchConf:        filtering.SafeSearchConfig{Enabled: spec.SafeSearch},
		UseOwnSettings:        spec.OwnSettings,
		FilteringEnabled:      spec.Filtering,
		SafeBrowsingEnabled:   spec.SafeBrowsing,
		ParentalEnabled:       spec.Parental,
		UseOwnBlockedServices: spec.OwnServices,
	}
	if spec.SafeSearchObject {
		p.SafeSearch = ss
	} else {
		// The interface stays nil, as in production for a client whose own safe
		// search is off.
		ss = nil
	}
	if err = p.SetIDs(slices.Clone(spec.IDs)); err != nil {
		return nil, nil, err
	}
	m = &c04Client{spec: spec, ss: ss}
	m.spec.IDs = slices.Clone(spec.IDs)
	m.ips = slices.Clone(p.IPs)
	m.nets = slices.Clone(p.Subnets)
	for _, mac := range p.MACs {
		m.macs = append(m.macs, string(mac))
	}
	m.cids = slices.Clone(p.ClientIDs)
	m.idset = slices.Clone(p.IDs())
	sort.Strings(m.idset)
	m.tags = slices.Clone(spec.Tags)
	sort.Strings(m.tags)
	return p, m, nil
}

// c04State is the shadow model plus the objects under observation.
type c04State struct {
	rep     *verifkit.Report
	st      *client.Storage
	flts    []*c04Filter
	dhcp    *c04DHCP
	clients []*c04Client
	nextUID int
	ops     []c04Op
	failed  bool
	lastOp  string // full kind of the last operation, e.g. rejected-update-steal-id (witness only)
	lastFam string // its family, used in violation keys: add, update, remove, lease-change, construction, rejected-add, rejected-update, remove-of-unknown-name

	ownerChanges int
	rejected     int
	lastOwner    map[string]int
	nAnySS       int
	rot          int
}

func (h *c04State) byName(name string) *c04Client {
	for _, c := range h.clients {
		if c.spec.Name == name {
			return c
		}
	}
	return nil
}

// Candidate owners.  More than one candidate can only come from spellings in
// the unspecified zone; then every candidate is accepted.
func (h *c04State) ownersCID(cid string) (out []*c04Client) {
	if cid == "" {
		return nil
	}
	for _, c := range h.clients {
		if c.ownsCID(cid) {
			out = append(out, c)
		}
	}
	return out
}

func (h *c04State) ownersMAC(mac string) (out []*c04Client) {
	for _, c := range h.clients {
		if c.ownsMAC(mac) {
			out = append(out, c)
		}
	}
	return out
}

// ownersAddr returns the candidates for an address and the tier that decided:
// exact IP, then the most specific containing CIDR, then the MAC of the DHCP
// lease of the address.
func (h *c04State) ownersAddr(a netip.Addr) (out []*c04Client, tier string) {
	for _, c := range h.clients {
		if c.ownsIP(a) {
			out = append(out, c)
		}
	}
	if len(out) > 0 {
		return out, "exact-ip"
	}
	best := -1
	for _, c := range h.clients {
		if b := c.bestNet(a); b > best {
			best = b
		}
	}
	if best >= 0 {
		for _, c := range h.clients {
			if c.bestNet(a) == best {
				out = append(out, c)
			}
		}
		return out, "cidr"
	}
	if mac, ok := h.dhcp.leases[a]; ok {
		out = h.ownersMAC(string(mac))
		if len(out) > 0 {
			return out, "dhcp-mac"
		}
	}
	return nil, "none"
}

// containingOwners counts distinct clients owning a CIDR that contains a.
func (h *c04State) containingOwners(a netip.Addr) (n int) {
	for _, c := range h.clients {
		if c.bestNet(a) >= 0 {
			n++
		}
	}
	return n
}

// relation says how the client called name is related to a probe; it is used
// to build violation keys only.
func (h *c04State) relation(name, cid string, a netip.Addr, mac string) string {
	c := h.byName(name)
	switch {
	case name == "":
		return "nobody"
	case c == nil:
		return "client-not-in-registry"
	case cid != "" && c.ownsCID(cid):
		return "clientid-owner"
	case cid != "" && c.spec.Name == cid:
		return "client-named-like-the-clientid"
	case cid != "" && c04SpelledMAC(cid) != "" && c.ownsMAC(c04SpelledMAC(cid)):
		return "owner-of-the-mac-the-clientid-spells"
	case a.IsValid() && c.ownsIP(a):
		return "exact-ip-owner"
	case a.IsValid() && c.bestNet(a) >= 0:
		return "cidr-owner"
	case mac != "" && c.ownsMAC(mac):
		return "mac-owner"
	}
	if a.IsValid() {
		if m, ok := h.dhcp.leases[a]; ok && c.ownsMAC(string(m)) {
			return "dhcp-mac-owner"
		}
	}
	return "non-owner"
}

func (h *c04State) leaseView() map[string]string {
	out := map[string]string{}
	for a, m := range h.dhcp.leases {
		out[a.String()] = m.String()
	}
	return out
}

func (h *c04State) violate(key, what string, detail map[string]any) {
	h.failed = true
	var reg []any
	for _, c := range h.clients {
		reg = append(reg, c.view())
	}
	w := map[string]any{
		"history":             h.ops,
		"model_registry_now":  reg,
		"dhcp_leases_now":     h.leaseView(),
		"last_operation_kind": h.lastOp,
	}
	for k, v := range detail {
		w[k] = v
	}
	h.rep.Violate(key, what, w)
}

func c04Names2(cs []*c04Client) (out []string) {
	for _, c := range cs {
		out = append(out, c.spec.Name)
	}
	return out
}

func c04InCands(cs []*c04Client, name string) *c04Client {
	for _, c := range cs {
		if c.spec.Name == name {
			return c
		}
	}
	return nil
}

// ---------------------------------------------------------------------------
// Probes.

type c04Probes struct {
	addrs     []netip.Addr
	macs      []c04ID
	macColon8 []string // colon spelling of the 8-byte MACs: also an IPv6 address
	cids      []string
	applyCIDs []string
	// lookalikeCIDs are the members of applyCIDs that nobody can own.
	lookalikeCIDs []string
}

func c04MakeProbes() (p c04Probes) {
	for _, s := range c04PoolIPs {
		p.addrs = append(p.addrs, netip.MustParseAddr(s))
	}
	for _, s := range c04ExtraAddrs {
		p.addrs = append(p.addrs, netip.MustParseAddr(s))
	}
	for _, s := range c04PoolMACs {
		id := c04ParseID(s, false)
		p.macs = append(p.macs, id)
		if len(id.mac) == 8 {
			p.macColon8 = append(p.macColon8, net.HardwareAddr(id.mac).String())
		}
	}
	p.cids = append(slices.Clone(c04PoolCIDs), "unknown-cid")
	p.applyCIDs = append([]string{""}, p.cids...)
	// Request ClientIDs that are valid ClientID labels but spell an identifier
	// of ANOTHER kind that the storage may hold, or resemble a stored ClientID:
	// the dash form of the pool MACs (6, 8 and 20 bytes), a dashed IP, client
	// names, a prefix and an extension of a pool ClientID.  A request ClientID
	// matches only a client that lists exactly that ClientID.
	for _, m := range p.macs {
		p.lookalikeCIDs = append(p.lookalikeCIDs, strings.ReplaceAll(net.HardwareAddr(m.mac).String(), ":", "-"))
	}
	p.lookalikeCIDs = append(p.lookalikeCIDs, "10-1-1-1", "alpha", "hotel", "cid", "cid-ab")
	for _, l := range p.lookalikeCIDs {
		if err := client.ValidateClientID(l); err != nil {
			panic("c04: look-alike is not a valid ClientID: " + l)
		}
	}
	p.applyCIDs = append(p.applyCIDs, p.lookalikeCIDs...)
	return p
}

// c04AnySS in a wanted result means "any safe-search object".
const c04AnySS = "<any>"

// c04SwitchStats counts, for requests attributed to a client, how often each
// of the five per-client switches was observed with the client's own value
// on/off against the global value on/off: [switch][client uses own][own value][global value].
var c04SwitchStats [5][2][2][2]int
var c04SwitchNames = [5]string{"filtering", "safebrowsing", "parental", "safesearch", "blocked-services"}

var (
	c04GlobalBS = &filtering.BlockedServices{Schedule: schedule.EmptyWeekly(), IDs: []string{"global-sentinel"}}
	c04GlobalSS = &c04SafeSearch{id: "<global>"}
)

func c04B(b bool) byte {
	if b {
		return '1'
	}
	return '0'
}

// c04RecordMatches checks that a record returned by Find/FindByName/
// RangeByName is the current version of the model client.
func c04RecordMatches(p *client.Persistent, c *c04Client) (field string) {
	ids := slices.Clone(p.IDs())
	sort.Strings(ids)
	tags := slices.Clone(p.Tags)
	sort.Strings(tags)
	switch {
	case p.Name != c.spec.Name:
		return "name"
	case !slices.Equal(ids, c.idset):
		return "ids"
	case p.UseOwnSettings != c.spec.OwnSettings, p.FilteringEnabled != c.spec.Filtering,
		p.SafeBrowsingEnabled != c.spec.SafeBrowsing, p.ParentalEnabled != c.spec.Parental,
		p.SafeSearchConf.Enabled != c.spec.SafeSearch, p.UseOwnBlockedServices != c.spec.OwnServices:
		return "settings"
	case p.BlockedServices == nil || !slices.Equal(p.BlockedServices.IDs, c.spec.Services):
		return "blocked-services"
	case p.BlockedServices.Schedule == nil || p.BlockedServices.Schedule.Contains(time.Now()) != c.spec.ServicesPaused:
		return "blocked-services-schedule"
	case !slices.Equal(tags, c.tags):
		return "tags"
	}
	return ""
}

func c04RecordView(p *client.Persistent) any {
	if p == nil {
		return nil
	}
	v := map[string]any{"name": p.Name, "ids": p.IDs(), "tags": p.Tags, "use_own_settings": p.UseOwnSettings,
		"filtering": p.FilteringEnabled, "safebrowsing": p.SafeBrowsingEnabled, "parental": p.ParentalEnabled,
		"safesearch": p.SafeSearchConf.Enabled, "use_own_blocked_services": p.UseOwnBlockedServices}
	if p.BlockedServices != nil {
		v["services"] = p.BlockedServices.IDs
	}
	return v
}

// checkFind compares one Find result with the candidates.
func (h *c04State) checkFind(probe, kind, tier string, cands []*c04Client, got *client.Persistent, ok bool,
	cid string, a netip.Addr, mac string) {
	gotName := ""
	if ok && got != nil {
		gotName = got.Name
	}
	if ok && got == nil {
		h.violate("find:"+kind+":ok-with-nil-client", "Find reported ok with a nil client", map[string]any{"probe": probe})
		return
	}
	ctx := ":after-" + h.lastFam
	if len(cands) == 0 {
		if ok {
			h.violate("find:"+kind+":want-nobody:got-"+h.relation(gotName, cid, a, mac)+ctx,
				fmt.Sprintf("Find(%q) resolves to client %q, but no client owns that identifier", probe, gotName),
				map[string]any{"probe": probe, "got": c04RecordView(got), "want": nil})
		}
		return
	}
	if len(cands) > 1 {
		h.rep.Unspec("lookup with several equally specific owners (non-canonical CIDR spellings)")
	}
	c := c04InCands(cands, gotName)
	if c == nil {
		h.violate("find:"+kind+":want-"+tier+"-owner:got-"+h.relation(gotName, cid, a, mac)+ctx,
			fmt.Sprintf("Find(%q) resolves to %q, the owner by %s is %v", probe, gotName, tier, c04Names2(cands)),
			map[string]any{"probe": probe, "got": c04RecordView(got), "want_owner": c04Names2(cands), "want_tier": tier})
		return
	}
	if f := c04RecordMatches(got, c); f != "" {
		h.violate("find:"+kind+":stale-record:"+f+ctx,
			fmt.Sprintf("Find(%q) returns client %q with %s that differ from its current version", probe, gotName, f),
			map[string]any{"probe": probe, "got": c04RecordView(got), "want": c.view()})
	}
}

// c04ApplyOut is the part of filtering.Settings ApplyClientFiltering can write.
type c04ApplyOut struct {
	Name       string   `json:"client_name"`
	Tags       []string `json:"client_tags"`
	Filtering  bool     `json:"filtering"`
	SafeSearch bool     `json:"safesearch"`
	SafeBrows  bool     `json:"safebrowsing"`
	Parental   bool     `json:"parental"`
	Services   []string `json:"blocked_services"` // nil = the global object was left in place
	Paused     string   `json:"blocked_services_schedule"`
	SSOwner    string   `json:"client_safe_search_of"`
}

func (o c04ApplyOut) str() string {
	ss := "nil"
	if o.Services != nil {
		ss = strings.Join(o.Services, ",")
	}
	return o.Name + "|" + strings.Join(o.Tags, ",") + "|" + string([]byte{c04B(o.Filtering), c04B(o.SafeSearch),
		c04B(o.SafeBrows), c04B(o.Parental)}) + "|" + ss + "|" + o.Paused + "|" + o.SSOwner
}

func (h *c04State) apply(cid string, a netip.Addr, g bool) (o c04ApplyOut) {
	setts := &filtering.Settings{
		ClientIP:            a,
		BlockedServices:     c04GlobalBS,
		ProtectionEnabled:   true,
		FilteringEnabled:    g,
		SafeSearchEnabled:   g,
		SafeBrowsingEnabled: g,
		ParentalEnabled:     g,
		ClientSafeSearch:    c04GlobalSS,
	}
	h.st.ApplyClientFiltering(cid, a, setts)
	o = c04ApplyOut{Name: setts.ClientName, Tags: setts.ClientTags, Filtering: setts.FilteringEnabled,
		SafeSearch: setts.SafeSearchEnabled, SafeBrows: setts.SafeBrowsingEnabled, Parental: setts.ParentalEnabled}
	o.Paused = "global"
	if setts.BlockedServices != c04GlobalBS {
		if setts.BlockedServices == nil {
			o.Services = []string{"<nil>"}
			o.Paused = "<nil>"
		} else {
			o.Services = append([]string{}, setts.BlockedServices.IDs...)
			// Full and empty weekly schedules answer the same at any instant.
			switch sch := setts.BlockedServices.Schedule; {
			case sch == nil:
				o.Paused = "<nil>"
			case sch.Contains(time.Now()):
				o.Paused = "pausing"
			default:
				o.Paused = "not-pausing"
			}
		}
	}
	switch v := setts.ClientSafeSearch.(type) {
	case nil:
		o.SSOwner = "<nil>"
	case *c04SafeSearch:
		o.SSOwner = v.id
	default:
		o.SSOwner = "<other>"
	}
	return o
}

// wantApply is what the statement demands when the request is attributed to c
// (nil: to nobody) and the global switches all read g.
func c04WantApply(c *c04Client, g bool) (o c04ApplyOut) {
	o = c04ApplyOut{Filtering: g, SafeSearch: g, SafeBrows: g, Parental: g, SSOwner: c04GlobalSS.id, Paused: "global"}
	if c == nil {
		return o
	}
	o.Name = c.spec.Name
	o.Tags = c.tags
	if c.spec.OwnSettings {
		o.Filtering, o.SafeSearch, o.SafeBrows, o.Parental = c.spec.Filtering, c.spec.SafeSearch, c.spec.SafeBrowsing, c.spec.Parental
		switch {
		case c.ss != nil:
			o.SSOwner = c.ss.id
		case !c.spec.SafeSearch:
			// Own safe search is off and the client has no safe-search object:
			// the flag must read off; which object is left in the settings is
			// of no consequence and not judged.
			o.SSOwner = c04AnySS
		default:
			o.SSOwner = "<nil>"
		}
	}
	if c.spec.OwnServices {
		o.Services = append([]string{}, c.spec.Services...)
		o.Paused = map[bool]string{true: "pausing", false: "not-pausing"}[c.spec.ServicesPaused]
	}
	return o
}

func c04ApplyDiff(got, want c04ApplyOut) string {
	switch {
	case got.Name != want.Name:
		return "attribution"
	case !slices.Equal(got.Tags, want.Tags):
		return "tags"
	case got.Filtering != want.Filtering:
		return "filtering-flag"
	case got.SafeBrows != want.SafeBrows:
		return "safebrowsing-flag"
	case got.Parental != want.Parental:
		return "parental-flag"
	case got.SafeSearch != want.SafeSearch:
		return "safesearch-flag"
	case want.SSOwner != c04AnySS && got.SSOwner != want.SSOwner:
		return "safesearch-object"
	case (got.Services == nil) != (want.Services == nil) || !slices.Equal(got.Services, want.Services):
		return "blocked-services"
	case got.Paused != want.Paused:
		return "blocked-services-schedule"
	}
	return ""
}

// c04SpelledMAC returns the raw MAC a ClientID text can be read as, or "".
func c04SpelledMAC(cid string) string {
	m, err := net.ParseMAC(cid)
	if err != nil {
		return ""
	}
	return string(m)
}

// lookalikeOwner returns the client that holds, as an identifier of another
// kind or as its name, what the look-alike ClientID spells.
func (h *c04State) lookalikeOwner(cid string) *c04Client {
	if c := h.byName(cid); c != nil {
		return c
	}
	if m, err := net.ParseMAC(cid); err == nil {
		if cs := h.ownersMAC(string(m)); len(cs) > 0 {
			return cs[0]
		}
	}
	if a, err := netip.ParseAddr(strings.ReplaceAll(cid, "-", ".")); err == nil {
		for _, c := range h.clients {
			if c.ownsIP(a) {
				return c
			}
		}
	}
	for _, c := range h.clients {
		for _, x := range c.cids {
			if strings.HasPrefix(x, cid) || strings.HasPrefix(cid, x) {
				return c
			}
		}
	}
	return nil
}

// wantRequest computes the candidates for a request by the statement's
// precedence.
func (h *c04State) wantRequest(cid string, a netip.Addr) (cands []*c04Client, tier string) {
	if cs := h.ownersCID(cid); len(cs) > 0 {
		return cs, "clientid"
	}
	return h.ownersAddr(a)
}

func (h *c04State) checkApply(cid string, a netip.Addr, g bool, got c04ApplyOut, cands []*c04Client, tier string) {
	ctx := ":after-" + h.lastFam
	detail := func(want any) map[string]any {
		return map[string]any{"request": map[string]any{"clientid": cid, "addr": a.String()}, "global_switches_all": g,
			"got": got, "want": want, "want_tier": tier, "want_owner": c04Names2(cands)}
	}
	if len(cands) == 0 {
		want := c04WantApply(nil, g)
		if d := c04ApplyDiff(got, want); d != "" {
			key := "apply:want-nobody:" + d
			if d == "attribution" {
				key = "apply:want-nobody:got-" + h.relation(got.Name, cid, a, "")
			}
			h.violate(key+ctx, fmt.Sprintf("request (ClientID %q, %s) must not be attributed to any client; settings written: %s", cid, a, got.str()), detail(want))
		}
		return
	}
	c := c04InCands(cands, got.Name)
	if c == nil {
		h.violate("apply:want-"+tier+"-owner:got-"+h.relation(got.Name, cid, a, "")+ctx,
			fmt.Sprintf("request (ClientID %q, %s) attributed to %q, precedence gives %v by %s", cid, a, got.Name, c04Names2(cands), tier),
			detail(c04WantApply(cands[0], g)))
		return
	}
	want := c04WantApply(c, g)
	gi := int(c04B(g) - '0')
	for i, v := range [4]bool{c.spec.Filtering, c.spec.SafeBrowsing, c.spec.Parental, c.spec.SafeSearch} {
		c04SwitchStats[i][int(c04B(c.spec.OwnSettings)-'0')][int(c04B(v)-'0')][gi]++
	}
	c04SwitchStats[4][int(c04B(c.spec.OwnServices)-'0')][int(c04B(len(c.spec.Services) > 0)-'0')][1]++
	if c.spec.OwnSettings && c.ss == nil {
		if want.SSOwner == c04AnySS {
			h.nAnySS++
		}
	}
	if d := c04ApplyDiff(got, want); d != "" {
		own := "global"
		svcDiff := strings.HasPrefix(d, "blocked-services")
		if (svcDiff && c.spec.OwnServices) || (!svcDiff && c.spec.OwnSettings) {
			own = "own"
		}
		h.violate("apply:settings:"+d+":client-uses-"+own+ctx,
			fmt.Sprintf("request (ClientID %q, %s) attributed to %q but %s is not what that client's switches demand", cid, a, got.Name, d),
			detail(want))
	}
}

// probeAll runs every probe, compares each with the model and returns the
// observation vector (one entry per probe) for before/after comparisons.
func (h *c04State) probeAll(pr *c04Probes, e2e *rand.Rand) (obs []string) {
	rep := h.rep
	obs = make([]string, 0, 512)
	note := func(label string, got *client.Persistent, ok bool) {
		if ok && got != nil {
			ids := slices.Clone(got.IDs())
			sort.Strings(ids)
			obs = append(obs, label+"="+got.Name+"["+strings.Join(ids, " ")+"]")
		} else {
			obs = append(obs, label+"=-")
		}
	}

	// Registry-wide: names.
	for _, n := range c04Names {
		got, ok := h.st.FindByName(n)
		note("name:"+n, got, ok)
		c := h.byName(n)
		switch {
		case c == nil && ok:
			h.violate("findbyname:want-nobody:got-client:after-"+h.lastFam, fmt.Sprintf("FindByName(%q) finds a client, the registry has none of that name", n),
				map[string]any{"probe": n, "got": c04RecordView(got)})
		case c != nil && (!ok || got == nil):
			h.violate("findbyname:want-client:got-nobody:after-"+h.lastFam, fmt.Sprintf("FindByName(%q) finds nothing, the registry has that client", n),
				map[string]any{"probe": n, "want": c.view()})
		case c != nil:
			if f := c04RecordMatches(got, c); f != "" {
				h.violate("findbyname:stale-record:"+f+":after-"+h.lastFam, fmt.Sprintf("FindByName(%q) returns %s that differ from the client's current version", n, f),
					map[string]any{"probe": n, "got": c04RecordView(got), "want": c.view()})
			}
		}
		if h.failed {
			return obs
		}
	}
	var ranged []string
	var rangedRecs []*client.Persistent
	h.st.RangeByName(func(c *client.Persistent) bool {
		ranged = append(ranged, c.Name)
		rangedRecs = append(rangedRecs, c.ShallowClone())
		return true
	})
	wantNames := c04Names2(h.clients)
	sort.Strings(wantNames)
	obs = append(obs, "range="+strings.Join(ranged, ","), fmt.Sprintf("size=%d", h.st.Size()))
	if !slices.Equal(ranged, wantNames) {
		h.violate("rangebyname:client-set:after-"+h.lastFam, "RangeByName does not enumerate exactly the registry's clients in name order",
			map[string]any{"got": ranged, "want": wantNames})
		return obs
	}
	for i, r := range rangedRecs {
		if f := c04RecordMatches(r, h.byName(ranged[i])); f != "" {
			h.violate("rangebyname:stale-record:"+f+":after-"+h.lastFam, "RangeByName yields a record that differs from the client's current version",
				map[string]any{"got": c04RecordView(r), "want": h.byName(ranged[i]).view()})
			return obs
		}
	}
	if n := h.st.Size(); n != len(h.clients) {
		h.violate("size:after-"+h.lastFam, fmt.Sprintf("Size()=%d, registry has %d clients", n, len(h.clients)), nil)
		return obs
	}

	// Find by ClientID.
	for _, cid := range pr.cids {
		got, ok := h.st.Find(cid)
		note("find:"+cid, got, ok)
		h.checkFind(cid, "clientid", "clientid", h.ownersCID(cid), got, ok, cid, netip.Addr{}, "")
		rep.Event("probes_find")
		if h.failed {
			return obs
		}
	}
	// Find by MAC.
	for _, m := range pr.macs {
		got, ok := h.st.Find(m.spell)
		note("find:"+m.spell, got, ok)
		h.checkFind(m.spell, fmt.Sprintf("mac%d", len(m.mac)), "mac", h.ownersMAC(m.mac), got, ok, "", netip.Addr{}, m.mac)
		rep.Event("probes_find")
		if h.failed {
			return obs
		}
	}
	// Find by address.
	for _, a := range pr.addrs {
		s := a.String()
		got, ok := h.st.Find(s)
		note("find:"+s, got, ok)
		cands, tier := h.ownersAddr(a)
		h.checkFind(s, "addr", tier, cands, got, ok, "", a, "")
		rep.Event("probes_find")
		if h.failed {
			return obs
		}
	}
	// Unspecified spellings: observed and counted, never judged.
	for _, s := range pr.macColon8 {
		got, ok := h.st.Find(s)
		note("find:"+s, got, ok)
		rep.Unspec("Find by colon spelling of an 8-byte MAC (also an IPv6 address)")
	}
	for _, s := range []string{"CID-A", "AA:AA:AA:AA:AA:01", "aaaa.aaaa.aa02"} {
		got, ok := h.st.Find(s)
		note("find:"+s, got, ok)
		rep.Unspec("Find by other letter case / MAC format of a stored identifier")
	}

	// Requests.
	for ai, a := range pr.addrs {
		addrCands, addrTier := h.ownersAddr(a)
		nContaining := h.containingOwners(a)
		for _, cid := range pr.applyCIDs {
			cands, tier := h.wantRequest(cid, a)
			lookalike := slices.Contains(pr.lookalikeCIDs, cid)
			if lookalike && (ai+h.rot)%3 != 0 {
				// A third of the addresses, the same within one history (the
				// observation vectors of consecutive steps are compared) and
				// rotating over the histories.
				continue
			}
			for _, g := range []bool{false, true} {
				if lookalike && g {
					// Attribution is what these probes are about; one polarity
					// of the global switches is enough.
					continue
				}
				if lookalike {
					rep.Event("requests_with_clientid_spelling_another_identifier_kind")
					if oc := h.lookalikeOwner(cid); oc != nil && c04InCands(cands, oc.spec.Name) == nil {
						rep.Event("lookalike_clientid_names_identifier_of_client_other_than_request_owner")
					}
				}
				got := h.apply(cid, a, g)
				obs = append(obs, "apply:"+cid+"@"+a.String()+"/"+string(c04B(g))+"="+got.str())
				rep.Event("probes_apply")
				if len(cands) > 1 {
					rep.Unspec("lookup with several equally specific owners (non-canonical CIDR spellings)")
				}
				h.checkApply(cid, a, g, got, cands, tier)
				if h.failed {
					return obs
				}
			}
			// Evidence about what was exercised.
			rep.Event("requests_decided_by:" + tier)
			if tier == "clientid" && len(addrCands) > 0 && c04InCands(addrCands, cands[0].spec.Name) == nil {
				rep.Event("requests_where_clientid_owner_beats_other_address_owner")
			}
			if cid == "" {
				if addrTier == "cidr" && nContaining >= 2 {
					rep.Event("addresses_inside_2plus_cidrs_of_different_clients")
				}
				if addrTier == "exact-ip" && nContaining >= 1 {
					rep.Event("addresses_with_exact_owner_and_containing_cidr")
				}
			}
		}
		rep.Unspec("request with upper-case ClientID")
		got := h.apply("CID-A", a, false)
		obs = append(obs, "apply:CID-A@"+a.String()+"="+got.str())
	}

	// The same requests through the filtering module (what dnsforward calls):
	// blocked-service rules that end up in the settings.
	for i := 0; i < 6 && len(h.flts) > 0; i++ {
		a := pr.addrs[e2e.Intn(len(pr.addrs))]
		cid := pr.applyCIDs[e2e.Intn(len(pr.applyCIDs))]
		// Two of three probes are requests of some client.
		for try := 0; try < 4 && i%3 != 0; try++ {
			if cs, _ := h.wantRequest(cid, a); len(cs) > 0 {
				break
			}
			a = pr.addrs[e2e.Intn(len(pr.addrs))]
			cid = pr.applyCIDs[e2e.Intn(len(pr.applyCIDs))]
		}
		for _, f := range h.flts {
			if !h.probeFilter(f, cid, a) {
				return obs
			}
		}
	}
	return obs
}

// c04Filter is a real filtering module wired to the storage under test, with
// a global blocked-services list and a global pause schedule that pauses
// always or never.
type c04Filter struct {
	d            *filtering.DNSFilter
	globalPaused bool
	// globalFiltering is the global filtering switch of this instance.
	globalFiltering bool
}

// Hosts blocked by the enabled list file resp. by a custom rule of the
// filtering modules under test.
const (
	c04ListHost   = "ads.list.verif.example"
	c04CustomHost = "ads.custom.verif.example"
)

// c04NoChecker is a hash-prefix checker that blocks nothing.
type c04NoChecker struct{}

func (c04NoChecker) Check(_ string) (block bool, err error) { return false, nil }

// c04HostOf gives a host name that the rules of a blocked service match
// (verified at start-up).
func c04HostOf(svc string) string { return "www." + svc + ".com" }

// probeFilter sends one request through ApplyAdditionalFiltering and CheckHost
// of a real filtering module, the way dnsforward does, and compares the
// blocked-service verdicts with the effective list and the effective pause
// schedule: the client's own when it opts out of the global ones, the global
// ones otherwise.
func (h *c04State) probeFilter(f *c04Filter, cid string, a netip.Addr) (ok bool) {
	rep := h.rep
	setts := f.d.Settings()
	setts.ProtectionEnabled = true
	f.d.ApplyAdditionalFiltering(a, cid, setts)
	var svc []string
	for _, r := range setts.ServicesRules {
		svc = append(svc, r.Name)
	}
	rep.Event("probes_through_filtering_module")
	cands, tier := h.wantRequest(cid, a)
	if len(cands) == 0 {
		cands = []*c04Client{nil}
	}
	// Hosts to judge: the services of the global list and the service that
	// goes with the attributed client's name (in no list for other requests).
	hosts := []string{c04GlobalSvcs[0], c04GlobalSvcs[1], "discord"}
	if n := setts.ClientName; c04SvcOf[n] != "" {
		hosts[2] = c04SvcOf[n]
	}
	verdict := map[string]bool{}
	for _, s := range hosts {
		res, err := f.d.CheckHost(c04HostOf(s), 1, setts)
		if err != nil {
			rep.Inconcl("CheckHost failed: " + err.Error())
			h.failed = true
			return false
		}
		verdict[s] = res.IsFiltered && res.Reason == filtering.FilteredBlockedService
		rep.Event("checkhost_verdicts")
	}
	// The rule lists: a host blocked by an enabled list file and one blocked by
	// a custom rule.  They apply iff the effective filtering switch is on: the
	// client's own when it opts out of the global settings, else the global.
	listVerdict := map[string]bool{}
	for _, host := range []string{c04ListHost, c04CustomHost} {
		res, err := f.d.CheckHost(host, 1, setts)
		if err != nil {
			rep.Inconcl("CheckHost failed: " + err.Error())
			h.failed = true
			return false
		}
		listVerdict[host] = res.IsFiltered && res.Reason == filtering.FilteredBlockList
		rep.Event("checkhost_verdicts")
	}
	oo := map[bool]string{true: "on", false: "off"}
	pz := map[bool]string{true: "pausing", false: "empty"}
	var combo, firstBad, badCombo string
	var wantsDoc []any
	for _, c := range cands {
		list, paused, name, uses := c04GlobalSvcs, f.globalPaused, "", "global"
		ownSched := "none"
		if c != nil {
			name = c.spec.Name
			ownSched = pz[c.spec.ServicesPaused]
			if c.spec.OwnServices {
				list, paused, uses = c.spec.Services, c.spec.ServicesPaused, "own"
			}
		}
		combo = "client-uses-" + uses + ":own-sched-" + ownSched + ":global-sched-" + pz[f.globalPaused]
		var wantRules []string
		if !paused {
			wantRules = list
		}
		wd := map[string]any{"client": name, "effective_list": list, "effective_schedule_pausing": paused, "effective_filtering_switch": f.globalFiltering}
		if c != nil && c.spec.OwnSettings {
			wd["effective_filtering_switch"] = c.spec.Filtering
		}
		wantsDoc = append(wantsDoc, wd)
		bad := ""
		switch {
		case name != setts.ClientName:
			bad = "attribution"
		case !slices.Equal(svc, wantRules):
			bad = "rules-of-wrong-services"
			if len(svc) == 0 {
				bad = "no-rules-but-want-rules"
			} else if len(wantRules) == 0 {
				bad = "rules-but-want-none"
			}
		default:
			for _, s := range hosts {
				want := !paused && slices.Contains(list, s)
				if verdict[s] != want {
					bad = map[bool]string{true: "blocked-but-want-allowed", false: "allowed-but-want-blocked"}[verdict[s]]
					break
				}
			}
			effFiltering, fUses, ownF := f.globalFiltering, "global", "none"
			if c != nil {
				ownF = oo[c.spec.Filtering]
				if c.spec.OwnSettings {
					effFiltering, fUses = c.spec.Filtering, "own"
				}
			}
			fCombo := "client-uses-" + fUses + "-settings:own-filtering-" + ownF + ":global-filtering-" + oo[f.globalFiltering]
			for _, host := range []string{c04ListHost, c04CustomHost} {
				if bad == "" && listVerdict[host] != effFiltering {
					kind := map[string]string{c04ListHost: "list-file-rule", c04CustomHost: "custom-rule"}[host]
					bad = "list-rules:" + kind + ":" + map[bool]string{true: "blocked-but-want-allowed", false: "allowed-but-want-blocked"}[listVerdict[host]] + ":" + fCombo
				}
			}
			if bad == "" && c != nil {
				rep.Event("filtering_probe:" + fCombo)
			}
		}
		if bad == "" {
			if c != nil {
				rep.Event("services_probe:" + combo)
			} else {
				rep.Event("services_probe:no-client:global-sched-" + pz[f.globalPaused])
			}
			return true
		}
		// Describe the mismatch against the candidate the request was actually
		// attributed to, if there is one.
		if firstBad == "" || (firstBad == "attribution" && bad != "attribution") {
			firstBad, badCombo = bad, combo
		}
	}
	key := "services:" + firstBad + ":" + badCombo
	if firstBad == "attribution" {
		key = "services:attribution-differs-from-storage"
	} else if strings.HasPrefix(firstBad, "list-rules:") {
		key = "filtering-module:" + firstBad
	}
	h.violate(key,
		fmt.Sprintf("request (ClientID %q, %s) through the filtering module (global list %v, global schedule %s): client %q, rules of %v apply, blocked-service verdicts %v",
			cid, a, c04GlobalSvcs, pz[f.globalPaused], setts.ClientName, svc, verdict),
		map[string]any{"request": map[string]any{"clientid": cid, "addr": a.String()}, "global_services": c04GlobalSvcs,
			"global_schedule_pausing": f.globalPaused, "got_client": setts.ClientName, "got_services_with_rules": svc,
			"got_blocked_service_verdicts": verdict, "got_blocked_by_rule_list": listVerdict, "global_filtering_switch": f.globalFiltering,
			"want_one_of": wantsDoc, "want_tier": tier})
	return false
}

// ---------------------------------------------------------------------------
// Generator.

type c04Gen struct {
	rng      *rand.Rand
	pool     []c04ID
	variants []c04ID
}

func c04NewGen(rng *rand.Rand) *c04Gen {
	g := &c04Gen{rng: rng}
	for _, l := range [][]string{c04PoolIPs, c04PoolNets, c04PoolMACs, c04PoolCIDs} {
		for _, s := range l {
			g.pool = append(g.pool, c04ParseID(s, false))
		}
	}
	for _, s := range c04Variants {
		g.variants = append(g.variants, c04ParseID(s, true))
	}
	return g
}

func (h *c04State) ownerOf(id c04ID, except *c04Client) *c04Client {
	for _, c := range h.clients {
		if c == except {
			continue
		}
		switch id.kind {
		case "ip":
			if c.ownsIP(id.ip) {
				return c
			}
		case "net":
			if c.ownsNet(id.net) {
				return c
			}
		case "mac":
			if c.ownsMAC(id.mac) {
				return c
			}
		case "cid":
			if c.ownsCID(id.cid) {
				return c
			}
		}
	}
	return nil
}

// pickIDs chooses k distinct identifiers; each is free (not owned by another
// client) with probability 1-pTaken.
func (g *c04Gen) pickIDs(h *c04State, self *c04Client, k int, pTaken float64, have []string) (out []string) {
	out = slices.Clone(have)
	for tries := 0; len(out) < len(have)+k && tries < 200; tries++ {
		var id c04ID
		if g.rng.Float64() < 0.03 {
			id = g.variants[g.rng.Intn(len(g.variants))]
		} else {
			id = g.pool[g.rng.Intn(len(g.pool))]
		}
		if id.spell == "0.0.0.0/0" && g.rng.Intn(4) != 0 {
			continue
		}
		taken := h.ownerOf(id, self) != nil
		if taken != (g.rng.Float64() < pTaken) {
			continue
		}
		if slices.Contains(out, id.spell) {
			continue
		}
		out = append(out, id.spell)
	}
	return out
}

func (g *c04Gen) settings(spec *c04Spec) {
	r := g.rng
	spec.OwnSettings = r.Intn(2) == 0
	spec.Filtering = r.Intn(2) == 0
	spec.SafeBrowsing = r.Intn(2) == 0
	spec.Parental = r.Intn(2) == 0
	spec.SafeSearch = r.Intn(2) == 0
	// As production builds it: object present exactly when enabled.  Rarely
	// the object is kept although safe search is off (a client struct built by
	// other code); never enabled without an object.
	spec.SafeSearchObject = spec.SafeSearch || r.Intn(8) == 0
	spec.OwnServices = r.Intn(2) == 0
	spec.ServicesPaused = r.Intn(2) == 0
	spec.Services = []string{c04SvcOf[spec.Name]}
	if r.Intn(3) == 0 {
		spec.Services = append(spec.Services, c04GlobalSvcs[r.Intn(len(c04GlobalSvcs))])
	}
	switch r.Intn(8) {
	case 0:
		// No list at all: what the production constructors produce when the
		// configuration / request names no blocked services.
		spec.Services = nil
	case 1:
		spec.Services = []string{}
	}
	spec.Tags = []string{c04TagOf[spec.Name]}
	if r.Intn(3) == 0 {
		spec.Tags = append(spec.Tags, c04ExtraTags[r.Intn(len(c04ExtraTags))])
	}
	if r.Intn(8) == 0 {
		spec.Tags = nil
	}
}

func (g *c04Gen) freeName(h *c04State) (string, bool) {
	var free []string
	for _, n := range c04Names {
		if h.byName(n) == nil {
			free = append(free, n)
		}
	}
	if len(free) == 0 {
		return "", false
	}
	return free[g.rng.Intn(len(free))], true
}

func (g *c04Gen) takenName(h *c04State, except *c04Client) (string, bool) {
	var taken []string
	for _, c := range h.clients {
		if c != except {
			taken = append(taken, c.spec.Name)
		}
	}
	if len(taken) == 0 {
		return "", false
	}
	return taken[g.rng.Intn(len(taken))], true
}

func c04HasVariant(ids []string) bool {
	for _, s := range ids {
		if slices.Contains(c04Variants, s) {
			return true
		}
	}
	return false
}

// clashKind says whether m (replacing self, if not nil) would share a name or
// an identifier with another client of the model, by identifier kind.
func (h *c04State) clashKind(m *c04Client, self *c04Client) string {
	for _, c := range h.clients {
		if c != self && c.spec.Name == m.spec.Name {
			return "name"
		}
	}
	for _, c := range h.clients {
		if c == self {
			continue
		}
		for _, x := range m.cids {
			if c.ownsCID(x) {
				return "clientid"
			}
		}
		for _, x := range m.ips {
			if c.ownsIP(x) {
				return "ip"
			}
		}
		for _, x := range m.nets {
			if c.ownsNet(x) {
				return "cidr"
			}
		}
		for _, x := range m.macs {
			if c.ownsMAC(x) {
				return fmt.Sprintf("mac%d", len(x))
			}
		}
	}
	return ""
}

// noteOwners updates the owner-change statistics after an accepted step.
func (h *c04State) noteOwners(g *c04Gen) {
	for _, id := range g.pool {
		c := h.ownerOf(id, nil)
		if c == nil {
			continue
		}
		if prev, ok := h.lastOwner[id.spell]; ok && prev != c.uid {
			h.ownerChanges++
			h.rep.Event("identifier_changed_owner")
		}
		h.lastOwner[id.spell] = c.uid
	}
}

// step generates and executes one operation.  It returns whether the registry
// may have changed legitimately (accepted operation or lease change).
func (h *c04State) step(g *c04Gen, i int) (rejected bool, opKind string) {
	r := g.rng
	rep := h.rep
	ctx := context.Background()
	op := c04Op{Step: i}

	roll := r.Intn(100)
	switch {
	case len(h.clients) == 0 && roll < 85:
		roll = 0
	}
	switch {
	case roll < 30: // add
		op.Kind = "add"
		spec := c04Spec{}
		name, ok := g.freeName(h)
		if !ok || (len(h.clients) > 0 && r.Intn(8) == 0) {
			name, _ = g.takenName(h, nil)
			op.Variant = "name-in-use"
		}
		spec.Name = name
		pTaken := 0.12
		if r.Intn(6) == 0 {
			pTaken = 0.6
		}
		spec.IDs = g.pickIDs(h, nil, 1+r.Intn(4), pTaken, nil)
		if len(spec.IDs) == 0 {
			spec.IDs = g.pickIDs(h, nil, 1, 0.5, nil)
		}
		g.settings(&spec)
		op.Client = &spec
		h.doAddOrUpdate(ctx, &op, "", nil)
	case roll < 72: // update
		op.Kind = "update"
		if len(h.clients) == 0 || r.Intn(25) == 0 {
			op.Variant = "unknown-target"
			name, ok := g.freeName(h)
			if !ok {
				name = "nobody"
			}
			spec := c04Spec{Name: name, IDs: g.pickIDs(h, nil, 1+r.Intn(2), 0.1, nil)}
			if len(spec.IDs) == 0 {
				spec.IDs = []string{"cid-a"}
			}
			g.settings(&spec)
			op.Target, op.Client = name, &spec
			h.doAddOrUpdate(ctx, &op, name, nil)
			break
		}
		t := h.clients[r.Intn(len(h.clients))]
		spec := t.spec
		spec.IDs = slices.Clone(t.spec.IDs)
		spec.Services = slices.Clone(t.spec.Services)
		spec.Tags = slices.Clone(t.spec.Tags)
		variants := []string{"no-op", "settings", "rename", "rename-to-name-in-use", "replace-ids", "drop-ids", "add-ids", "steal-id", "rename-and-ids", "reorder-ids"}
		v := variants[r.Intn(len(variants))]
		rename := func(taken bool) {
			var n string
			var ok bool
			if taken {
				n, ok = g.takenName(h, t)
			} else {
				n, ok = g.freeName(h)
			}
			if ok {
				spec.Name = n
				g.settings(&spec)
			} else {
				v = "settings"
				g.settings(&spec)
			}
		}
		dropIDs := func() {
			if len(spec.IDs) < 2 {
				spec.IDs = g.pickIDs(h, t, 1, 0.05, nil)
				if len(spec.IDs) == 0 {
					spec.IDs = slices.Clone(t.spec.IDs)
				}
				v = "replace-ids"
				return
			}
			r.Shuffle(len(spec.IDs), func(a, b int) { spec.IDs[a], spec.IDs[b] = spec.IDs[b], spec.IDs[a] })
			spec.IDs = spec.IDs[:1+r.Intn(len(spec.IDs)-1)]
		}
		switch v {
		case "no-op":
		case "settings":
			g.settings(&spec)
		case "rename":
			rename(false)
		case "rename-to-name-in-use":
			rename(true)
		case "replace-ids":
			ids := g.pickIDs(h, t, 1+r.Intn(4), 0.08, nil)
			if len(ids) > 0 {
				spec.IDs = ids
			}
		case "drop-ids":
			dropIDs()
		case "add-ids":
			spec.IDs = g.pickIDs(h, t, 1+r.Intn(2), 0.05, spec.IDs)
		case "steal-id":
			spec.IDs = g.pickIDs(h, t, 1, 1.0, spec.IDs)
			if r.Intn(2) == 0 {
				// Also give up one of the own identifiers in the same operation.
				own := spec.IDs[:len(spec.IDs)-1]
				if len(own) >= 1 && len(spec.IDs) > len(t.spec.IDs) {
					k := r.Intn(len(own))
					spec.IDs = append(slices.Clone(spec.IDs[:k]), spec.IDs[k+1:]...)
				}
			}
		case "rename-and-ids":
			rename(false)
			if r.Intn(2) == 0 {
				dropIDs()
			}
			spec.IDs = g.pickIDs(h, t, r.Intn(3), 0.1, spec.IDs)
		case "reorder-ids":
			r.Shuffle(len(spec.IDs), func(a, b int) { spec.IDs[a], spec.IDs[b] = spec.IDs[b], spec.IDs[a] })
		}
		op.Variant = v
		op.Target, op.Client = t.spec.Name, &spec
		h.doAddOrUpdate(ctx, &op, t.spec.Name, t)
	case roll < 84: // remove
		op.Kind = "remove"
		name := ""
		if len(h.clients) > 0 && r.Intn(6) != 0 {
			name = h.clients[r.Intn(len(h.clients))].spec.Name
		} else if n, ok := g.freeName(h); ok {
			name = n
			op.Variant = "unknown-target"
		} else {
			name = "nobody"
			op.Variant = "unknown-target"
		}
		op.Target = name
		t := h.byName(name)
		op.Expected = map[bool]string{true: "removed", false: "not-found"}[t != nil]
		ok := h.st.RemoveByName(ctx, name)
		op.Result = map[bool]string{true: "removed", false: "not-found"}[ok]
		h.lastOp = "remove"
		if !ok {
			h.lastOp = "remove-of-unknown-name"
		}
		h.lastFam = h.lastOp
		h.ops = append(h.ops, op)
		switch {
		case t != nil && !ok:
			h.violate("remove:existing-client-not-found", fmt.Sprintf("RemoveByName(%q) reports no such client, the registry has it", name), nil)
		case t == nil && ok:
			h.violate("remove:unknown-name-removed", fmt.Sprintf("RemoveByName(%q) reports success, the registry has no such client", name), nil)
		case t != nil:
			h.clients = slices.DeleteFunc(h.clients, func(c *c04Client) bool { return c == t })
			rep.Event("ops_remove_accepted")
		default:
			rep.Event("ops_remove_of_unknown_name")
			rejected = true
		}
	default: // lease change
		op.Kind = "lease"
		addrs := append(slices.Clone(c04PoolIPs), c04ExtraAddrs...)
		a := netip.MustParseAddr(addrs[r.Intn(len(addrs))])
		if _, has := h.dhcp.leases[a]; has && r.Intn(3) == 0 {
			delete(h.dhcp.leases, a)
			op.Lease = a.String() + " released"
		} else {
			var macs []string
			if r.Intn(10) < 7 {
				for _, c := range h.clients {
					macs = append(macs, c.macs...)
				}
			}
			if len(macs) == 0 {
				for _, s := range c04PoolMACs {
					macs = append(macs, c04ParseID(s, false).mac)
				}
			}
			m := net.HardwareAddr(macs[r.Intn(len(macs))])
			h.dhcp.leases[a] = slices.Clone(m)
			op.Lease = a.String() + " -> " + m.String()
		}
		op.Expected, op.Result = "ok", "ok"
		h.lastOp, h.lastFam = "lease-change", "lease-change"
		h.ops = append(h.ops, op)
		rep.Event("ops_lease_change")
	}
	if len(h.ops) > 0 {
		last := h.ops[len(h.ops)-1]
		rejected = strings.HasPrefix(last.Result, "error") || last.Result == "not-found"
	}
	return rejected, h.lastOp
}

// doAddOrUpdate executes Add (target == "") or Update and steps the model.
func (h *c04State) doAddOrUpdate(ctx context.Context, op *c04Op, target string, self *c04Client) {
	rep := h.rep
	isUpdate := op.Kind == "update"
	p, m, err := c04Build(*op.Client)
	if err != nil {
		op.Result = "generator: SetIDs: " + err.Error()
		h.ops = append(h.ops, *op)
		h.failed = true
		rep.Inconcl("generator produced identifiers SetIDs rejects: " + err.Error())
		return
	}
	unspec := c04HasVariant(op.Client.IDs)
	clash := h.clashKind(m, self)
	switch {
	case isUpdate && self == nil:
		op.Expected = "error: no such client"
	case clash != "":
		op.Expected = "error: shares " + clash + " with another client"
	default:
		op.Expected = "ok"
	}
	if unspec {
		op.Expected += " (uses a spelling in the unspecified zone: outcome followed, not judged)"
	}
	if isUpdate {
		err = h.st.Update(ctx, target, p)
	} else {
		err = h.st.Add(ctx, p)
	}
	p = nil // Handed over; never touched again.
	kind := op.Kind
	if op.Variant != "" {
		kind += "-" + op.Variant
	}
	if err != nil {
		op.Result = "error: " + err.Error()
		h.lastOp, h.lastFam = "rejected-"+kind, "rejected-"+op.Kind
		h.rejected++
	} else {
		op.Result = "ok"
		h.lastOp, h.lastFam = kind, op.Kind
	}
	h.ops = append(h.ops, *op)

	if unspec {
		rep.Unspec("operation with non-canonical CIDR / other MAC format / upper-case ClientID")
	}
	switch {
	case isUpdate && self == nil:
		if err == nil {
			h.violate("update:unknown-target-accepted", "Update of a name the registry does not have succeeded", nil)
			return
		}
		rep.Event("ops_update_of_unknown_name")
	case clash != "" && err == nil:
		if unspec {
			break
		}
		h.violate("clash-accepted:"+op.Kind+":shared-"+clash,
			fmt.Sprintf("%s of client %q succeeded although it shares a %s with another client", op.Kind, op.Client.Name, clash), nil)
		return
	case clash == "" && err != nil:
		if unspec {
			break
		}
		h.violate("valid-operation-rejected:"+op.Kind,
			fmt.Sprintf("%s of client %q was rejected (%v) although it shares no name or identifier with another client", op.Kind, op.Client.Name, err), nil)
		return
	case clash != "":
		rep.Event("ops_rejected_clash:" + op.Kind + ":" + clash)
	}
	if err != nil {
		return
	}
	rep.Event("ops_" + op.Kind + "_accepted")
	if isUpdate {
		rep.Event("ops_update_accepted:" + op.Variant)
		m.uid = self.uid
		for i, c := range h.clients {
			if c == self {
				h.clients[i] = m
			}
		}
	} else {
		h.nextUID++
		m.uid = h.nextUID
		h.clients = append(h.clients, m)
	}
}

func c04ObsDiff(before, after []string) (diff []map[string]string) {
	n := len(before)
	if len(after) < n {
		n = len(after)
	}
	for i := 0; i < n && len(diff) < 8; i++ {
		if before[i] != after[i] {
			diff = append(diff, map[string]string{"before": before[i], "after": after[i]})
		}
	}
	if len(before) != len(after) {
		diff = append(diff, map[string]string{"before": fmt.Sprintf("%d probes", len(before)), "after": fmt.Sprintf("%d probes", len(after))})
	}
	return diff
}

// ---------------------------------------------------------------------------

func TestVerifC04(t *testing.T) {
	rep := verifkit.New("C04", "registry",
		"case = one history of 5-60 operations (add / update: rename, replace, drop, add, steal identifiers, no-op / remove / DHCP lease change) on a fresh client.Storage over 8 names and a colliding identifier pool; after every operation every name, ClientID, MAC and address of the pool is looked up (Find, FindByName, RangeByName, Size) and every (ClientID, address) request is run through ApplyClientFiltering twice (global switches all off / all on), each compared with a shadow registry; non-trivial = the history contains a rejected operation or an identifier that passed from one client to another; distinct by the operation list")
	defer func() {
		if err := rep.Write(); err != nil {
			t.Fatal(err)
		}
	}()
	rep.Assume("identifier strings are turned into typed identifiers by Persistent.SetIDs, whose parsing is taken as given")
	rng := rep.Rand("main")
	e2e := rep.Rand("e2e")
	gen := c04NewGen(rng)
	probes := c04MakeProbes()

	// The filtering module in front of the storage, as dnsforward uses it.
	filtering.InitModule()
	var cur *client.Storage
	var flts []*c04Filter
	for _, paused := range []bool{false, true} {
		// The first instance has the global filtering switch on, the second
		// one off; both have one enabled block list on disk and one custom
		// rule, and build their engines the way home.startDNSServer does.
		globalFiltering := !paused
		dataDir := t.TempDir()
		if err := os.MkdirAll(filepath.Join(dataDir, "filters"), 0o755); err != nil {
			rep.Inconcl(err.Error())
			return
		}
		fy := filtering.FilterYAML{Enabled: true, URL: "https://lists.invalid/1.txt", Name: "verif list"}
		fy.ID = 1
		if err := os.WriteFile(fy.Path(dataDir), []byte("! Title: verif list\n||"+c04ListHost+"^\n"), 0o644); err != nil {
			rep.Inconcl(err.Error())
			return
		}
		d, err := filtering.New(&filtering.Config{
			DataDir:                dataDir,
			FilteringEnabled:       globalFiltering,
			ProtectionEnabled:      true,
			Filters:                []filtering.FilterYAML{fy},
			UserRules:              []string{"||" + c04CustomHost + "^"},
			BlockedServices:        &filtering.BlockedServices{Schedule: c04Sched(paused), IDs: slices.Clone(c04GlobalSvcs)},
			SafeBrowsingChecker:    c04NoChecker{},
			ParentalControlChecker: c04NoChecker{},
			SafeSearch:             &c04SafeSearch{id: "<filter-global>"},
			ApplyClientFiltering: func(id string, addr netip.Addr, setts *filtering.Settings) {
				cur.ApplyClientFiltering(id, addr, setts)
			},
		}, nil)
		if err != nil {
			rep.Inconcl("cannot construct the filtering module: " + err.Error())
			return
		}
		defer d.Close()
		d.EnableFilters(false)
		flts = append(flts, &c04Filter{d: d, globalPaused: paused, globalFiltering: globalFiltering})
	}
	// The list host and the custom-rule host must be blocked by the rule
	// lists when filtering is on, and by nothing else (instance with the
	// global switch on).
	for _, host := range []string{c04ListHost, c04CustomHost} {
		on, err := flts[0].d.CheckHost(host, 1, &filtering.Settings{ProtectionEnabled: true, FilteringEnabled: true})
		off, _ := flts[0].d.CheckHost(host, 1, &filtering.Settings{ProtectionEnabled: true})
		if err != nil || on.Reason != filtering.FilteredBlockList || off.IsFiltered {
			rep.Inconcl(fmt.Sprintf("probe host %s is not decided by the rule lists alone (on: %+v, off: %+v)", host, on, off))
			return
		}
	}
	// The probe hosts must be hosts the services' rules match.
	for _, s := range append(slices.Clone(c04GlobalSvcs), "youtube", "facebook", "twitter", "instagram", "tiktok", "netflix", "reddit", "discord") {
		setts := &filtering.Settings{ProtectionEnabled: true}
		flts[0].d.ApplyBlockedServicesList(setts, []string{s})
		res, err := flts[0].d.CheckHost(c04HostOf(s), 1, setts)
		res0, _ := flts[0].d.CheckHost(c04HostOf(s), 1, &filtering.Settings{ProtectionEnabled: true})
		if err != nil || res.Reason != filtering.FilteredBlockedService || res0.IsFiltered {
			rep.Inconcl(fmt.Sprintf("probe host %s is not decided by the rules of service %q alone", c04HostOf(s), s))
			return
		}
	}

	nHist := verifkit.Pick(1500, 30000)
	for hi := 0; hi < nHist; hi++ {
		func() {
			h := &c04State{rep: rep, rot: hi, flts: flts, dhcp: &c04DHCP{leases: map[netip.Addr]net.HardwareAddr{}}, lastOwner: map[string]int{}}
			defer func() {
				if r := recover(); r != nil {
					h.violate("panic:after-"+h.lastFam, fmt.Sprintf("client storage panicked: %v", r), nil)
				}
			}()
			ctx := context.Background()

			// Some histories start from clients given at construction time.
			var initial []*client.Persistent
			if rng.Intn(3) == 0 {
				k := 1 + rng.Intn(3)
				for j := 0; j < k; j++ {
					name, _ := gen.freeName(h)
					spec := c04Spec{Name: name, IDs: gen.pickIDs(h, nil, 1+rng.Intn(3), 0, nil)}
					spec.IDs = slices.DeleteFunc(spec.IDs, func(s string) bool { return slices.Contains(c04Variants, s) })
					if len(spec.IDs) == 0 {
						continue
					}
					gen.settings(&spec)
					p, m, berr := c04Build(spec)
					if berr != nil {
						rep.Inconcl("generator produced identifiers SetIDs rejects: " + berr.Error())
						return
					}
					initial = append(initial, p)
					h.nextUID++
					m.uid = h.nextUID
					h.clients = append(h.clients, m)
					h.ops = append(h.ops, c04Op{Step: -1, Kind: "initial-client", Client: &spec, Expected: "ok", Result: "ok"})
				}
			}
			st, serr := client.NewStorage(ctx, &client.StorageConfig{
				Logger:         slogutil.NewDiscardLogger(),
				DHCP:           h.dhcp,
				InitialClients: initial,
			})
			initial = nil
			h.lastOp, h.lastFam = "construction", "construction"
			if serr != nil {
				h.violate("valid-operation-rejected:initial-clients", "NewStorage rejected initial clients that share nothing: "+serr.Error(), nil)
				return
			}
			h.st, cur = st, st
			h.noteOwners(gen)

			n := 5 + rng.Intn(56)
			prev := h.probeAll(&probes, e2e)
			for i := 0; i < n && !h.failed; i++ {
				rejected, _ := h.step(gen, i)
				rep.Event("steps")
				if h.failed {
					break
				}
				obs := h.probeAll(&probes, e2e)
				if h.failed {
					break
				}
				if rejected {
					rep.Event("ops_rejected_total")
					if !slices.Equal(prev, obs) {
						h.violate("rejected-operation-changed-lookups:"+h.lastFam,
							"an operation that returned an error changed the result of some lookup",
							map[string]any{"changed_probes": c04ObsDiff(prev, obs)})
						break
					}
				} else {
					h.noteOwners(gen)
				}
				prev = obs
			}
			nontrivial := h.rejected > 0 || h.ownerChanges > 0
			rep.Eval(nontrivial, verifkit.JSON(h.ops))
			rep.EventN("dhcp_mac_lookups_made_by_storage", h.dhcp.calls)
			if h.nAnySS > 0 {
				rep.EventN("requests_of_own_settings_client_without_safesearch_object", h.nAnySS)
				rep.Unspec("which safe-search object is left in the settings when the client's own safe search is off")
			}
			if h.rejected > 0 {
				rep.Class("history_with_rejected_operation")
			}
			if h.ownerChanges > 0 {
				rep.Class("history_with_identifier_changing_owner")
			}
			if hi < 3 {
				rep.Sample(map[string]any{"history": h.ops})
			}
		}()
	}

	// Per-switch evidence: every switch must have been seen with the client's
	// own value on and off, against the global value equal and opposite, for
	// clients that use their own settings and for clients that do not.
	onoff := [2]string{"off", "on"}
	for i, name := range c04SwitchNames {
		for own := 0; own < 2; own++ {
			for v := 0; v < 2; v++ {
				for g := 0; g < 2; g++ {
					n := c04SwitchStats[i][own][v][g]
					if i == 4 {
						if g == 0 {
							continue
						}
						ev := fmt.Sprintf("switch:blocked-services:client-uses-%s:own-list-%s", [2]string{"global", "own"}[own], [2]string{"empty", "non-empty"}[v])
						rep.EventN(ev, n)
						if n < 500 && !rep.Violated() {
							rep.Inconcl(fmt.Sprintf("%s seen only %d times", ev, n))
						}
						continue
					}
					ev := fmt.Sprintf("switch:%s:client-uses-%s:own-%s:global-%s", name, [2]string{"global", "own"}[own], onoff[v], onoff[g])
					rep.EventN(ev, n)
					if n < 500 && !rep.Violated() {
						rep.Inconcl(fmt.Sprintf("%s seen only %d times", ev, n))
					}
				}
			}
		}
	}
	if rep.Events["requests_of_own_settings_client_without_safesearch_object"] < 500 && !rep.Violated() {
		rep.Inconcl("too few requests of own-settings clients whose safe search is off and whose safe-search object is nil")
	}

	for _, uses := range []string{"own", "global"} {
		for _, own := range []string{"on", "off"} {
			for _, g := range []string{"on", "off"} {
				ev := "filtering_probe:client-uses-" + uses + "-settings:own-filtering-" + own + ":global-filtering-" + g
				if rep.Events[ev] < 300 && !rep.Violated() {
					rep.Inconcl(fmt.Sprintf("%s seen only %d times", ev, rep.Events[ev]))
				}
			}
		}
	}
	// All combinations of (client uses own / global blocked services) x (own
	// schedule pausing / empty) x (global schedule pausing / empty).
	for _, uses := range []string{"own", "global"} {
		for _, own := range []string{"pausing", "empty"} {
			for _, g := range []string{"pausing", "empty"} {
				ev := "services_probe:client-uses-" + uses + ":own-sched-" + own + ":global-sched-" + g
				if rep.Events[ev] < 300 && !rep.Violated() {
					rep.Inconcl(fmt.Sprintf("%s seen only %d times", ev, rep.Events[ev]))
				}
			}
		}
	}

	// The run must have seen what the property is about.
	for ev, min := range map[string]int{
		"ops_rejected_total":                                                     100,
		"identifier_changed_owner":                                               100,
		"requests_decided_by:clientid":                                           1000,
		"requests_decided_by:exact-ip":                                           1000,
		"requests_decided_by:cidr":                                               1000,
		"requests_decided_by:dhcp-mac":                                           200,
		"requests_decided_by:none":                                               1000,
		"addresses_inside_2plus_cidrs_of_different_clients":                      200,
		"requests_where_clientid_owner_beats_other_address_owner":                200,
		"lookalike_clientid_names_identifier_of_client_other_than_request_owner": 500,
		"ops_update_accepted:drop-ids":                                           20,
		"ops_update_accepted:rename":                                             20,
	} {
		if rep.Events[ev] < min && !rep.Violated() {
			rep.Inconcl(fmt.Sprintf("event %q seen %d times, fewer than %d", ev, rep.Events[ev], min))
		}
	}
}
