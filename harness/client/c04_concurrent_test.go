//go:build verif

package client_test

import (
	"context"
	"fmt"
	"net"
	"net/netip"
	"os"
	"runtime"
	"slices"
	"sort"
	"strings"
	"sync"
	"sync/atomic"
	"testing"
	"time"

	"github.com/AdguardTeam/AdGuardHome/internal/client"
	"github.com/AdguardTeam/AdGuardHome/internal/dhcpsvc"
	"github.com/AdguardTeam/AdGuardHome/internal/filtering"
	"github.com/AdguardTeam/AdGuardHome/internal/verifkit"
	"github.com/AdguardTeam/golibs/logutil/slogutil"
	"github.com/anishathalye/porcupine"
)

// The concurrent part of C04: a small registry worked on by several goroutines
// that add, update and remove the SAME few names while others look identifiers
// up.  What is judged does not depend on the interleaving:
//
//   - at quiescence every identifier used in the round resolves (Find,
//     ApplyClientFiltering) exactly to the client that lists it in
//     RangeByName, or to nobody; no identifier is listed twice; names are
//     unique; an identifier or name nobody holds can be taken by a new client;
//   - the recorded calls with their results, ordered by a logical clock, are
//     linearizable against the sequential registry (porcupine).

// c04CDHCP is a read-only lease table (safe for concurrent readers).
type c04CDHCP struct {
	leases map[netip.Addr]net.HardwareAddr
}

func (d *c04CDHCP) Leases() (leases []*dhcpsvc.Lease)   { return nil }
func (d *c04CDHCP) HostByIP(_ netip.Addr) (host string) { return "" }
func (d *c04CDHCP) MACByIP(ip netip.Addr) (mac net.HardwareAddr) {
	m, ok := d.leases[ip]
	if !ok {
		return nil
	}

	return slices.Clone(m)
}

var (
	c04CNames = []string{"n0", "n1", "n2"}
	// Canonical spellings only, so that string equality is identifier equality.
	c04CPool = []string{
		"10.0.0.1", "10.0.0.2", "10.0.0.3", "10.0.0.4", "10.0.0.5", "10.0.0.6",
		"c-a", "c-b", "c-c", "c-d",
		"aa:bb:cc:00:00:01", "aa:bb:cc:00:00:02",
		"10.0.0.0/24", "10.0.0.0/28",
	}
	// Addresses that can only resolve through a CIDR or a lease.
	c04CExtraAddrs = []string{"10.0.0.77", "10.0.0.9", "10.9.9.9", "172.16.1.1", "192.168.77.7", "2001:db8::77"}
	c04CLeases     = map[string]string{"10.9.9.9": "aa:bb:cc:00:00:01", "10.0.0.6": "aa:bb:cc:00:00:02", "172.16.1.1": "aa:bb:cc:00:00:02",
		"192.168.77.7": "aa:bb:cc:00:00:01", "2001:db8::77": "aa:bb:cc:00:00:02"}
	// Leased addresses that are neither an exact-IP identifier nor inside a
	// CIDR of the pool: every lookup of them ends in the DHCP fallback (MAC of
	// the lease, then the client that lists the MAC).
	c04CLeasedOnly = []string{"10.9.9.9", "172.16.1.1", "192.168.77.7", "2001:db8::77"}
	// Custom upstreams make validation of a client take as long as it does for
	// real clients that have them.
	c04CUpstreams = []string{"1.1.1.1", "8.8.8.8", "[/example.org/]9.9.9.9", "[/example.com/]tls://dns.example"}
)

// c04COp is one recorded call.
type c04COp struct {
	G         int      `json:"goroutine"`
	Kind      string   `json:"op"`
	Name      string   `json:"name,omitempty"`
	IDs       []string `json:"ids,omitempty"`
	Upstreams bool     `json:"has_upstreams,omitempty"`
	CID       string   `json:"clientid,omitempty"`
	Addr      string   `json:"addr,omitempty"`
	Probe     string   `json:"probe,omitempty"`
	Call      int64    `json:"call_tick"`
	Ret       int64    `json:"return_tick"`
	Result    string   `json:"result"`
	Detail    string   `json:"error,omitempty"`

	p *client.Persistent
}

// c04CState is the sequential registry used as the linearizability model:
// "name=id,id;name=id" with names and ids sorted.
func c04CEncode(m map[string][]string) string {
	names := make([]string, 0, len(m))
	for n := range m {
		names = append(names, n)
	}
	sort.Strings(names)
	var sb strings.Builder
	for i, n := range names {
		if i > 0 {
			sb.WriteByte(';')
		}
		sb.WriteString(n + "=" + strings.Join(m[n], ","))
	}
	return sb.String()
}

func c04CDecode(s string) map[string][]string {
	m := map[string][]string{}
	if s == "" {
		return m
	}
	for _, part := range strings.Split(s, ";") {
		n, ids, _ := strings.Cut(part, "=")
		m[n] = strings.Split(ids, ",")
	}
	return m
}

func c04CLister(m map[string][]string, id, except string) string {
	for n, ids := range m {
		if n != except && slices.Contains(ids, id) {
			return n
		}
	}
	return ""
}

// c04CResolve is the statement's precedence over the sequential registry.
func c04CResolve(m map[string][]string, cid, addr string) string {
	if cid != "" {
		if n := c04CLister(m, cid, ""); n != "" {
			return n
		}
	}
	if addr == "" {
		return ""
	}
	if n := c04CLister(m, addr, ""); n != "" {
		return n
	}
	a, err := netip.ParseAddr(addr)
	if err != nil {
		// A MAC given to Find.
		return ""
	}
	best, owner := -1, ""
	for n, ids := range m {
		for _, id := range ids {
			if p, perr := netip.ParsePrefix(id); perr == nil && p.Contains(a) && p.Bits() > best {
				best, owner = p.Bits(), n
			}
		}
	}
	if owner != "" {
		return owner
	}
	if mac, ok := c04CLeases[addr]; ok {
		return c04CLister(m, mac, "")
	}
	return ""
}

func c04CModel(init string) porcupine.Model {
	return porcupine.Model{
		Init: func() any { return init },
		Step: func(state, input, output any) (bool, any) {
			st := state.(string)
			op := input.(c04COp)
			out := output.(string)
			m := c04CDecode(st)
			_, exists := m[op.Name]
			clash := false
			for _, id := range op.IDs {
				if c04CLister(m, id, op.Name) != "" {
					clash = true
				}
			}
			switch op.Kind {
			case "add":
				// A name in use is a clash, also with identical identifiers.
				for _, id := range op.IDs {
					if c04CLister(m, id, "") != "" {
						clash = true
					}
				}
				if out == "ok" {
					if exists || clash {
						return false, st
					}
					m[op.Name] = op.IDs
					return true, c04CEncode(m)
				}
				return exists || clash, st
			case "update":
				if out == "ok" {
					if !exists || clash {
						return false, st
					}
					m[op.Name] = op.IDs
					return true, c04CEncode(m)
				}
				return !exists || clash, st
			case "remove":
				if out == "true" {
					if !exists {
						return false, st
					}
					delete(m, op.Name)
					return true, c04CEncode(m)
				}
				return !exists, st
			case "findbyname":
				want := "-"
				if exists {
					want = strings.Join(m[op.Name], ",")
				}
				return out == want, st
			case "find", "findloose":
				// FindLoose(ip, ip.String()) differs from Find only by a
				// zone-insensitive exact match; the pool has no zones.
				want := c04CResolve(m, op.Probe, op.Probe)
				if want == "" {
					want = "-"
				}
				return out == want, st
			case "apply":
				want := c04CResolve(m, op.CID, op.Addr)
				if want == "" {
					want = "-"
				}
				return out == want, st
			}
			return false, st
		},
		Equal: func(a, b any) bool { return a.(string) == b.(string) },
	}
}

func c04CSortedIDs(p *client.Persistent) []string {
	ids := slices.Clone(p.IDs())
	sort.Strings(ids)
	return ids
}

func c04CKind(id string) string { return c04ParseID(id, false).kind }

// c04CBuild makes a client for the concurrent rounds: no own settings, custom
// upstreams on request.
func c04CBuild(name string, ids []string, ups bool) (*client.Persistent, error) {
	p, _, err := c04Build(c04Spec{Name: name, IDs: ids})
	if err != nil {
		return nil, err
	}
	if ups {
		p.Upstreams = slices.Clone(c04CUpstreams)
	}
	return p, nil
}

type c04CRound struct {
	rep   *verifkit.Report
	ops   []c04COp
	final []map[string]any
	bad   bool
}

func (r *c04CRound) violate(key, what string, detail map[string]any) {
	r.bad = true
	ops := slices.Clone(r.ops)
	sort.SliceStable(ops, func(i, j int) bool { return ops[i].Call < ops[j].Call })
	w := map[string]any{"calls_by_call_tick": ops, "registry_at_quiescence": r.final}
	for k, v := range detail {
		w[k] = v
	}
	r.rep.Violate(key, what, w)
}

func TestVerifC04Concurrent(t *testing.T) {
	// The same workload also serves as a race/crash monitor of another
	// property (C05 registers it as its part "clients").
	prop, part := os.Getenv("VERIF_CLIENT_PROP"), os.Getenv("VERIF_CLIENT_PART")
	if prop == "" {
		prop = "C04"
	}
	if part == "" {
		part = "concurrent"
	}
	rep := verifkit.New(prop, part,
		"case = one round: a fresh client.Storage with 1-3 clients, 2-4 writer goroutines doing seeded Add / Update (new identifiers) / RemoveByName on the same 3 names and 1-2 reader goroutines (FindByName, Find, FindLoose, ApplyClientFiltering; half of the address lookups on leased addresses that only the DHCP fallback resolves, while writers also use the leases' MACs), all released together; judged at quiescence (identifier -> lister consistency, unique names, free identifiers and names can be taken) and by a linearizability check of all recorded calls; non-trivial = two writes on one name overlapped in time; distinct by the operations, their results and their call/return order")
	defer func() {
		if err := rep.Write(); err != nil {
			t.Fatal(err)
		}
	}()
	rng := rep.Rand("concurrent")
	ctx := context.Background()
	if runtime.GOMAXPROCS(0) < 2 {
		rep.Inconcl("GOMAXPROCS < 2: operations cannot overlap")
		return
	}

	leases := map[netip.Addr]net.HardwareAddr{}
	for a, m := range c04CLeases {
		hw, _ := net.ParseMAC(m)
		leases[netip.MustParseAddr(a)] = hw
	}
	pickIDs := func() []string {
		k := 1 + rng.Intn(3)
		var ids []string
		for len(ids) < k {
			id := c04CPool[rng.Intn(len(c04CPool))]
			if strings.Contains(id, "/") && rng.Intn(3) != 0 {
				continue
			}
			if rng.Intn(4) == 0 {
				// Clients identified by the MACs of the leases.
				id = c04CPool[10+rng.Intn(2)]
			}
			if !slices.Contains(ids, id) {
				ids = append(ids, id)
			}
		}
		return ids
	}
	probeAddrs := append(slices.Clone(c04CPool[:6]), c04CExtraAddrs...)

	nRounds := verifkit.Pick(5000, 60000)
	overlapRounds := 0
	for ri := 0; ri < nRounds && rep.ViolationsTotal < 40; ri++ {
		r := &c04CRound{rep: rep}
		st, err := client.NewStorage(ctx, &client.StorageConfig{
			Logger: slogutil.NewDiscardLogger(),
			DHCP:   &c04CDHCP{leases: leases},
		})
		if err != nil {
			rep.Inconcl("NewStorage: " + err.Error())
			return
		}

		// Initial registry, sequentially; kept only if accepted.
		init := map[string][]string{}
		for _, n := range c04CNames {
			if rng.Intn(4) == 0 {
				continue
			}
			p, berr := c04CBuild(n, pickIDs(), rng.Intn(2) == 0)
			if berr != nil {
				rep.Inconcl("generator: " + berr.Error())
				return
			}
			ids := c04CSortedIDs(p)
			if st.Add(ctx, p) == nil {
				init[n] = ids
			}
		}

		// Pre-built operation lists.
		nW, nR := 2+rng.Intn(3), 1+rng.Intn(2)
		lists := make([][]c04COp, nW+nR)
		hot := c04CNames[rng.Intn(len(c04CNames))]
		for g := 0; g < nW; g++ {
			for k := 3 + rng.Intn(4); k > 0; k-- {
				op := c04COp{G: g}
				op.Name = c04CNames[rng.Intn(len(c04CNames))]
				if rng.Intn(2) == 0 {
					op.Name = hot
				}
				switch x := rng.Intn(10); {
				case x < 5:
					op.Kind = "update"
				case x < 8:
					op.Kind = "add"
				default:
					op.Kind = "remove"
				}
				if op.Kind != "remove" {
					op.Upstreams = rng.Intn(3) != 0
					p, berr := c04CBuild(op.Name, pickIDs(), op.Upstreams)
					if berr != nil {
						rep.Inconcl("generator: " + berr.Error())
						return
					}
					op.p, op.IDs = p, c04CSortedIDs(p)
				}
				lists[g] = append(lists[g], op)
			}
		}
		for g := nW; g < nW+nR; g++ {
			for k := 6 + rng.Intn(8); k > 0; k-- {
				op := c04COp{G: g}
				// Half of the address lookups use an address that only a DHCP
				// lease can resolve.
				addr := func() string {
					if rng.Intn(2) == 0 {
						return c04CLeasedOnly[rng.Intn(len(c04CLeasedOnly))]
					}
					return probeAddrs[rng.Intn(len(probeAddrs))]
				}
				switch rng.Intn(5) {
				case 0:
					op.Kind, op.Name = "findbyname", c04CNames[rng.Intn(len(c04CNames))]
				case 1:
					op.Kind = "find"
					if rng.Intn(3) != 0 {
						op.Probe = addr()
					} else {
						op.Probe = c04CPool[6+rng.Intn(6)]
					}
				case 2, 3:
					// As the query log's and the statistics' client lookups call
					// it: the address and its string form.
					op.Kind, op.Probe = "findloose", addr()
				default:
					op.Kind = "apply"
					op.Addr = addr()
					if rng.Intn(3) == 0 {
						op.CID = c04CPool[6+rng.Intn(4)]
					}
				}
				lists[g] = append(lists[g], op)
			}
		}

		// Run.
		var clock int64
		tick := func() int64 { return atomic.AddInt64(&clock, 1) }
		start := make(chan struct{})
		var wg sync.WaitGroup
		panics := make([]any, len(lists))
		for g := range lists {
			wg.Add(1)
			go func(g int) {
				defer wg.Done()
				defer func() {
					if rec := recover(); rec != nil {
						panics[g] = rec
					}
				}()
				<-start
				for i := range lists[g] {
					op := &lists[g][i]
					c04CExec(ctx, st, op, tick)
				}
			}(g)
		}
		close(start)
		wg.Wait()
		for _, l := range lists {
			for _, op := range l {
				if op.Ret != 0 {
					op.p = nil
					r.ops = append(r.ops, op)
				}
			}
		}
		for g, pv := range panics {
			if pv != nil {
				r.violate("concurrent:panic", fmt.Sprintf("goroutine %d panicked inside the client storage: %v", g, pv), nil)
			}
		}
		if r.bad {
			continue
		}
		rep.Event("rounds")
		rep.EventN("calls_recorded", len(r.ops))

		// How much did writes on one name overlap?
		overlap := false
		for i := range r.ops {
			a := r.ops[i]
			if a.Kind != "add" && a.Kind != "update" && a.Kind != "remove" {
				continue
			}
			if a.Result == "ok" || a.Result == "true" {
				rep.Event("writes_accepted:" + a.Kind)
			} else {
				rep.Event("writes_rejected:" + a.Kind)
			}
			for j := i + 1; j < len(r.ops); j++ {
				b := r.ops[j]
				if b.G == a.G || b.Name != a.Name || (b.Kind != "add" && b.Kind != "update" && b.Kind != "remove") {
					continue
				}
				if a.Call < b.Ret && b.Call < a.Ret {
					overlap = true
					ks := []string{a.Kind, b.Kind}
					sort.Strings(ks)
					rep.Event("overlapping_writes_on_one_name:" + ks[0] + "||" + ks[1])
				}
			}
		}
		// Lookups that end in the DHCP fallback, and those that overlap a write.
		for _, a := range r.ops {
			probe := a.Probe
			if a.Kind == "apply" {
				probe = a.Addr
			}
			if (a.Kind != "find" && a.Kind != "findloose" && a.Kind != "apply") || !slices.Contains(c04CLeasedOnly, probe) {
				continue
			}
			rep.Event("dhcp_fallback_lookups:" + a.Kind)
			if a.Result != "-" {
				rep.Event("dhcp_fallback_lookups_resolved_to_mac_client")
			}
			for _, b := range r.ops {
				if (b.Kind == "add" || b.Kind == "update" || b.Kind == "remove") && a.Call < b.Ret && b.Call < a.Ret {
					rep.Event("dhcp_fallback_lookups_overlapping_a_write:" + a.Kind)
					break
				}
			}
		}
		if overlap {
			overlapRounds++
			rep.Class("round_with_overlapping_writes_on_one_name")
		} else {
			rep.Class("round_without_overlap")
		}

		// Quiescence.  Final reads join the history.
		finalG := len(lists)
		func() {
			defer func() {
				if rec := recover(); rec != nil {
					r.violate("concurrent:quiescent:panic", fmt.Sprintf("a lookup at quiescence panicked inside the client storage: %v", rec), nil)
				}
			}()
			for _, n := range c04CNames {
				op := c04COp{G: finalG, Kind: "findbyname", Name: n}
				c04CExec(ctx, st, &op, tick)
				r.ops = append(r.ops, op)
			}
			c04CQuiescent(ctx, r, st, leases, probeAddrs)
		}()

		// Linearizability of everything recorded.
		if !r.bad {
			var hist []porcupine.Operation
			for _, op := range r.ops {
				out := op.Result
				hist = append(hist, porcupine.Operation{ClientId: op.G, Input: op, Call: op.Call, Output: out, Return: op.Ret})
			}
			res := porcupine.CheckOperationsTimeout(c04CModel(c04CEncode(init)), hist, 30*time.Second)
			rep.Event("porcupine_histories")
			switch res {
			case porcupine.Ok:
				rep.Event("porcupine_linearizable")
			case porcupine.Unknown:
				rep.Event("porcupine_timeouts")
			case porcupine.Illegal:
				r.violate("concurrent:not-linearizable",
					"the recorded calls and results of one round cannot be explained by any sequential order of the operations that respects their real-time order",
					map[string]any{"registry_before_round": init})
			}
		}

		sig := make([]string, 0, len(r.ops))
		ordered := slices.Clone(r.ops)
		sort.SliceStable(ordered, func(i, j int) bool { return ordered[i].Call < ordered[j].Call })
		for _, op := range ordered {
			sig = append(sig, fmt.Sprintf("%d:%s:%s:%v:%s%s%s:%s:%d-%d", op.G, op.Kind, op.Name, op.IDs, op.CID, op.Addr, op.Probe, op.Result, op.Call, op.Ret))
		}
		rep.Eval(overlap, strings.Join(sig, "|"))
		if ri < 2 {
			rep.Sample(map[string]any{"registry_before_round": init, "calls_by_call_tick": ordered})
		}
	}
	if !rep.Violated() {
		if overlapRounds < 30 {
			rep.Inconcl(fmt.Sprintf("only %d rounds had overlapping writes on one name", overlapRounds))
		}
		if rep.Events["porcupine_timeouts"] > rep.Events["porcupine_histories"]/20 {
			rep.Inconcl(fmt.Sprintf("porcupine timed out on %d of %d histories", rep.Events["porcupine_timeouts"], rep.Events["porcupine_histories"]))
		}
		for _, ev := range []string{"dhcp_fallback_lookups_overlapping_a_write:find", "dhcp_fallback_lookups_overlapping_a_write:findloose",
			"dhcp_fallback_lookups_overlapping_a_write:apply", "dhcp_fallback_lookups_resolved_to_mac_client",
			"overlapping_writes_on_one_name:update||update", "overlapping_writes_on_one_name:remove||update", "overlapping_writes_on_one_name:add||update"} {
			if rep.Events[ev] < 10 {
				rep.Inconcl(fmt.Sprintf("event %q seen only %d times", ev, rep.Events[ev]))
			}
		}
	}
}

// c04CExec performs one call and records it.
func c04CExec(ctx context.Context, st *client.Storage, op *c04COp, tick func() int64) {
	switch op.Kind {
	case "add", "update":
		p := op.p
		op.p = nil
		var err error
		op.Call = tick()
		if op.Kind == "add" {
			err = st.Add(ctx, p)
		} else {
			err = st.Update(ctx, op.Name, p)
		}
		op.Ret = tick()
		op.Result = "ok"
		if err != nil {
			op.Result, op.Detail = "err", err.Error()
		}
	case "remove":
		op.Call = tick()
		ok := st.RemoveByName(ctx, op.Name)
		op.Ret = tick()
		op.Result = fmt.Sprint(ok)
	case "findbyname":
		op.Call = tick()
		p, ok := st.FindByName(op.Name)
		op.Ret = tick()
		op.Result = "-"
		if ok && p != nil {
			op.Result = strings.Join(c04CSortedIDs(p), ",")
		}
	case "find":
		op.Call = tick()
		p, ok := st.Find(op.Probe)
		op.Ret = tick()
		op.Result = "-"
		if ok && p != nil {
			op.Result = p.Name
		}
	case "findloose":
		a := netip.MustParseAddr(op.Probe)
		op.Call = tick()
		p, ok := st.FindLoose(a, op.Probe)
		op.Ret = tick()
		op.Result = "-"
		if ok && p != nil {
			op.Result = p.Name
		}
	case "apply":
		setts := &filtering.Settings{}
		var a netip.Addr
		if op.Addr != "" {
			a = netip.MustParseAddr(op.Addr)
		}
		op.Call = tick()
		st.ApplyClientFiltering(op.CID, a, setts)
		op.Ret = tick()
		op.Result = "-"
		if setts.ClientName != "" {
			op.Result = setts.ClientName
		}
	}
}

// c04CQuiescent checks the structural invariants once every goroutine has
// returned.
func c04CQuiescent(ctx context.Context, r *c04CRound, st *client.Storage, leases map[netip.Addr]net.HardwareAddr, probeAddrs []string) {
	rep := r.rep
	var recs []*client.Persistent
	st.RangeByName(func(c *client.Persistent) bool {
		recs = append(recs, c.ShallowClone())
		return true
	})
	model := &c04State{rep: rep, dhcp: &c04DHCP{leases: leases}}
	seenName := map[string]bool{}
	for _, p := range recs {
		r.final = append(r.final, map[string]any{"name": p.Name, "ids": p.IDs()})
		c := &c04Client{spec: c04Spec{Name: p.Name}, ips: p.IPs, nets: p.Subnets, cids: p.ClientIDs, idset: c04CSortedIDs(p)}
		for _, m := range p.MACs {
			c.macs = append(c.macs, string(m))
		}
		model.clients = append(model.clients, c)
		if seenName[p.Name] {
			r.violate("concurrent:quiescent:name-listed-twice", fmt.Sprintf("RangeByName yields two clients called %q", p.Name), nil)
			return
		}
		seenName[p.Name] = true
	}
	if n := st.Size(); n != len(recs) {
		r.violate("concurrent:quiescent:size", fmt.Sprintf("Size()=%d but RangeByName yields %d clients", n, len(recs)), nil)
		return
	}
	for _, n := range c04CNames {
		p, ok := st.FindByName(n)
		c := model.byName(n)
		switch {
		case ok != (c != nil):
			r.violate("concurrent:quiescent:findbyname-disagrees-with-range", fmt.Sprintf("FindByName(%q) found=%v, RangeByName lists it=%v", n, ok, c != nil), nil)
			return
		case ok && !slices.Equal(c04CSortedIDs(p), c.idset):
			r.violate("concurrent:quiescent:findbyname-disagrees-with-range", fmt.Sprintf("FindByName(%q) has ids %v, RangeByName gives %v", n, p.IDs(), c.idset), nil)
			return
		}
	}

	// Every identifier used in the round: listed at most once, and resolving
	// exactly to its lister.
	listers := func(id c04ID) (out []string) {
		for _, c := range model.clients {
			switch {
			case id.kind == "ip" && c.ownsIP(id.ip), id.kind == "net" && c.ownsNet(id.net),
				id.kind == "mac" && c.ownsMAC(id.mac), id.kind == "cid" && c.ownsCID(id.cid):
				out = append(out, c.spec.Name)
			}
		}
		return out
	}
	var free []string
	for _, s := range c04CPool {
		id := c04ParseID(s, false)
		ls := listers(id)
		if len(ls) > 1 {
			r.violate("concurrent:quiescent:identifier-listed-by-two-clients:"+id.kind, fmt.Sprintf("%s is listed by %v", s, ls), nil)
			return
		}
		if len(ls) == 0 {
			free = append(free, s)
		}
	}
	check := func(api, probe, kind, got string, cands []*c04Client, tier string) bool {
		rep.Event("quiescent_probes")
		want := c04Names2(cands)
		switch {
		case len(cands) == 0 && got != "":
			r.violate("concurrent:quiescent:"+api+":"+kind+":want-nobody:got-non-lister",
				fmt.Sprintf("at quiescence %s(%s) resolves to %q, but no client lists an identifier that covers it", api, probe, got),
				map[string]any{"probe": probe, "got": got})
		case len(cands) > 0 && !slices.Contains(want, got):
			how := "non-lister"
			if got == "" {
				how = "nobody"
			}
			r.violate("concurrent:quiescent:"+api+":"+kind+":want-"+tier+"-owner:got-"+how,
				fmt.Sprintf("at quiescence %s(%s) resolves to %q, the registry lists it (%s) for %v", api, probe, got, tier, want),
				map[string]any{"probe": probe, "got": got, "want": want})
		default:
			return true
		}
		return false
	}
	name := func(p *client.Persistent, ok bool) string {
		if ok && p != nil {
			return p.Name
		}
		return ""
	}
	for _, s := range c04CPool {
		id := c04ParseID(s, false)
		switch id.kind {
		case "cid":
			p, ok := st.Find(s)
			setts := &filtering.Settings{}
			st.ApplyClientFiltering(s, netip.Addr{}, setts)
			if !check("Find", s, "clientid", name(p, ok), model.ownersCID(id.cid), "clientid") ||
				!check("ApplyClientFiltering", s, "clientid", setts.ClientName, model.ownersCID(id.cid), "clientid") {
				return
			}
		case "mac":
			p, ok := st.Find(s)
			if !check("Find", s, "mac", name(p, ok), model.ownersMAC(id.mac), "mac") {
				return
			}
		}
	}
	for _, s := range probeAddrs {
		a := netip.MustParseAddr(s)
		cands, tier := model.ownersAddr(a)
		p, ok := st.Find(s)
		setts := &filtering.Settings{}
		st.ApplyClientFiltering("", a, setts)
		pl, okl := st.FindLoose(a, s)
		if !check("Find", s, "addr", name(p, ok), cands, tier) ||
			!check("FindLoose", s, "addr", name(pl, okl), cands, tier) ||
			!check("ApplyClientFiltering", s, "addr", setts.ClientName, cands, tier) {
			return
		}
	}

	// What nobody holds can be taken: one new client per free identifier, and
	// every free name.
	for i, s := range free {
		n := fmt.Sprintf("taker-%d", i)
		p, err := c04CBuild(n, []string{s}, false)
		if err != nil {
			continue
		}
		rep.Event("free_identifiers_taken")
		if err = st.Add(ctx, p); err != nil {
			r.violate("concurrent:quiescent:free-identifier-cannot-be-taken:"+c04CKind(s),
				fmt.Sprintf("no client lists %s, yet adding a new client with it fails: %v", s, err),
				map[string]any{"identifier": s, "error": err.Error()})
			return
		}
		if !st.RemoveByName(ctx, n) {
			r.violate("concurrent:quiescent:added-client-not-removable", fmt.Sprintf("client %q was added a moment ago but RemoveByName does not find it", n), nil)
			return
		}
	}
	for _, n := range c04CNames {
		if seenName[n] {
			continue
		}
		p, err := c04CBuild(n, []string{"taker-cid"}, false)
		if err != nil {
			continue
		}
		rep.Event("free_names_taken")
		if err = st.Add(ctx, p); err != nil {
			r.violate("concurrent:quiescent:free-name-cannot-be-taken", fmt.Sprintf("no client is called %q, yet adding one fails: %v", n, err), map[string]any{"error": err.Error()})
			return
		}
		st.RemoveByName(ctx, n)
	}
}
