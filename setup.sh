#!/bin/sh
# Offline set-up: warms the Go build cache for the packages the monitors build
# (plain, -race and synctest variants).  Everything comes from files on disk.
set -u
cd /repo || exit 1
export GOFLAGS=-mod=mod GOPROXY=off
unset GOSUMDB GOTOOLCHAIN
go build ./... || exit 1
go test -vet=off -count=1 -run '^$' ./internal/... >/dev/null 2>&1
go test -race -vet=off -count=1 -run '^$' ./internal/... >/dev/null 2>&1
GOEXPERIMENT=synctest go test -vet=off -count=1 -run '^$' ./internal/home/ ./internal/querylog/ ./internal/dhcpd/ ./internal/filtering/... >/dev/null 2>&1
mkdir -p /verif/evidence /verif/replays /verif/build
exit 0
