#!/usr/bin/env python3
"""Validates MANIFEST.json and every evidence file against the schemas."""
import glob, json, sys
try:
    import jsonschema
except ImportError:
    import os
    os.execvp("python3-vt", ["python3-vt"] + sys.argv)
ok = True
ms = json.load(open("/root/.vp/MANIFEST.schema.json"))
es = json.load(open("/root/.vp/EVIDENCE.schema.json"))
try:
    jsonschema.validate(json.load(open("/verif/MANIFEST.json")), ms)
except Exception as e:
    ok = False; print("MANIFEST:", str(e)[:500])
for f in sorted(glob.glob("/verif/evidence/*.json")):
    try:
        jsonschema.validate(json.load(open(f)), es)
    except Exception as e:
        ok = False; print(f, str(e)[:500])
print("valid" if ok else "INVALID")
sys.exit(0 if ok else 1)
