"""Runs the monitors of one property and converts their raw reports into the
evidence file, VIOLATION / KNOWN-FINDING / INCONCLUSIVE lines and the exit
status.  See DESIGN.md section 2."""
import glob
import hashlib
import json
import os
import re
import shutil
import subprocess
import sys
import tempfile
import time

VERIF = os.path.dirname(os.path.dirname(os.path.abspath(__file__)))
REPO = os.environ.get("VERIF_REPO", "/repo")
HARNESS = os.path.join(VERIF, "harness")

sys.path.insert(0, os.path.join(VERIF, "lib"))
from registry import REGISTRY  # noqa: E402


def go_env(extra=None):
    env = dict(os.environ)
    env["GOFLAGS"] = "-mod=mod"
    env["GOPROXY"] = "off"
    # The pinned toolchain (go1.24.2) is selected by go.mod; GOSUMDB=off or
    # GOTOOLCHAIN=local would break that (DESIGN 2.2).
    env.pop("GOSUMDB", None)
    env.pop("GOTOOLCHAIN", None)
    env["GONOSUMDB"] = "github.com/anishathalye/*"
    env["GONOSUMCHECK"] = "1"
    env["GOFLAGS"] = "-mod=mod"
    env.setdefault("GOMAXPROCS", str(os.cpu_count() or 4))
    if extra:
        env.update(extra)
    return env


def scratch_root():
    for base in ("/dev/shm", os.path.join(VERIF, "build")):
        try:
            os.makedirs(base, exist_ok=True)
            d = tempfile.mkdtemp(prefix="verif-", dir=base)
            return d
        except OSError:
            continue
    raise RuntimeError("no scratch directory")


def harness_target(dirname):
    """harness/<a>__<b> is overlaid on /repo/internal/<a>/<b>; the special
    directory 'main' is overlaid on /repo itself."""
    if dirname == "main":
        return REPO
    return os.path.join(REPO, "internal", *dirname.split("__"))


def build_overlay(builddir, patterns=None):
    """Writes overlay.json mapping harness files into the packages they
    monitor.  patterns is a list of globs relative to /verif/harness (for
    example "filtering/c06_*.go"); verifkit is always included.  Returns the
    path."""
    import fnmatch
    replace = {}
    for d in sorted(os.listdir(HARNESS)):
        full = os.path.join(HARNESS, d)
        if not os.path.isdir(full):
            continue
        tgt = harness_target(d)
        for f in sorted(os.listdir(full)):
            if not f.endswith(".go"):
                continue
            rel = d + "/" + f
            if d != "verifkit" and patterns is not None and \
                    not any(fnmatch.fnmatch(rel, pat) for pat in patterns):
                continue
            name = f if d in ("verifkit", "verifsys") else "zz_verif_" + f
            replace[os.path.join(tgt, name)] = os.path.join(full, f)
    p = os.path.join(builddir, "overlay.json")
    with open(p, "w") as fh:
        json.dump({"Replace": replace}, fh, indent=1)
    return p


def build_modfile(builddir):
    """Copies /repo/go.mod + go.sum and adds porcupine (module cache only)."""
    mod = os.path.join(builddir, "verif.mod")
    shutil.copy(os.path.join(REPO, "go.mod"), mod)
    shutil.copy(os.path.join(REPO, "go.sum"), os.path.join(builddir, "verif.sum"))
    extra = os.path.join(VERIF, "lib", "extra.sum")
    if os.path.exists(extra):
        with open(os.path.join(builddir, "verif.sum"), "a") as fh:
            fh.write(open(extra).read())
    subprocess.run(
        ["go", "mod", "edit", "-modfile=" + mod,
         "-require=github.com/anishathalye/porcupine@v1.3.0"],
        cwd=REPO, env=go_env(), check=True)
    return mod


class PartResult:
    def __init__(self, name):
        self.name = name
        self.reports = []
        self.inconclusive = []
        self.crash_violations = []
        self.log = ""


CRASH_RE = re.compile(r"^(panic: |fatal error: |SIGSEGV|unexpected fault address)", re.M)


def run_go_part(prop, part, tier, seed, builddir, reportdir):
    """Runs one `go test` monitor.  part keys: name, pkg, run, race, synctest,
    modfile, timeout_quick, timeout_thorough, crash_is_violation,
    hang_is_violation, env, harness (list of harness dirs to overlay)."""
    res = PartResult(part["name"])
    overlay = build_overlay(builddir, part.get("harness"))
    binenv = {}
    if part.get("binary"):
        # Whole-binary tier: build AdGuardHome from the working tree (with the
        # overlay, so that tagged instrumentation files are included).
        b = part["binary"]
        out = os.path.join(builddir, "AdGuardHome" + (".race" if b.get("race") else ""))
        if not os.path.exists(out):
            bcmd = ["go", "build", "-overlay=" + overlay, "-tags", "verif", "-o", out]
            if b.get("race"):
                bcmd.insert(2, "-race")
            bcmd.append(".")
            bp = subprocess.run(bcmd, cwd=REPO, env=go_env(), stdout=subprocess.PIPE,
                                stderr=subprocess.STDOUT, text=True)
            if bp.returncode != 0:
                res.inconclusive.append("binary does not build: " + bp.stdout[-800:])
                return res
        binenv["VERIF_AGH_BIN"] = out
        binenv["VERIF_BIN_GORACE"] = "halt_on_error=0 log_path=%s" % os.path.join(
            reportdir, "race.%s.bin" % part["name"])
    cmd = ["go", "test", "-overlay=" + overlay, "-tags", "verif", "-vet=off",
           "-count=1", "-run", part["run"]]
    if part.get("race"):
        cmd.append("-race")
    if part.get("modfile"):
        cmd.append("-modfile=" + build_modfile(builddir))
    tmo = part.get("timeout_" + tier, 900 if tier == "quick" else 3600)
    cmd += ["-timeout", "%ds" % tmo, part["pkg"]]
    extra = {
        "VERIF_SEED": str(seed),
        "VERIF_TIER": tier,
        "VERIF_REPORT_DIR": reportdir,
        "VERIF_DIR": VERIF,
        "VERIF_SCRATCH": builddir,
        "VERIF_REPO_DIR": REPO,
    }
    if part.get("synctest"):
        extra["GOEXPERIMENT"] = "synctest"
    if part.get("race"):
        extra["GORACE"] = "halt_on_error=0 log_path=%s" % os.path.join(
            reportdir, "race.%s" % part["name"])
    extra.update(binenv)
    extra.update(part.get("env", {}))
    logp = os.path.join(builddir, "%s.%s.log" % (prop, part["name"]))
    t0 = time.time()
    with open(logp, "w") as lf:
        try:
            if part.get("compile_then_run"):
                # Overlay-only packages have no directory to chdir into, so
                # the test binary is compiled first and run from the scratch
                # directory.
                tb = os.path.join(builddir, "%s.%s.test" % (prop, part["name"]))
                ccmd = [c for c in cmd if not c.startswith("-timeout") and not c.startswith("-count")]
                ti = cmd.index("-timeout")
                ccmd = cmd[:2] + ["-c", "-o", tb] + [c for i, c in enumerate(cmd[2:], 2)
                                                     if i not in (ti, ti + 1) and c != "-count=1"
                                                     and i not in (cmd.index("-run"), cmd.index("-run") + 1)]
                p = subprocess.run(ccmd, cwd=REPO, env=go_env(extra), stdout=lf, stderr=subprocess.STDOUT)
                rc = p.returncode
                if rc != 0:
                    lf.write("\n[build failed]\n")
                else:
                    p = subprocess.run([tb, "-test.run", part["run"], "-test.timeout", "%ds" % tmo, "-test.count=1"],
                                       cwd=builddir, env=go_env(extra), stdout=lf,
                                       stderr=subprocess.STDOUT, timeout=tmo + 120)
                    rc = p.returncode
            else:
                p = subprocess.run(cmd, cwd=REPO, env=go_env(extra), stdout=lf,
                                   stderr=subprocess.STDOUT, timeout=tmo + 120)
                rc = p.returncode
        except subprocess.TimeoutExpired:
            rc = -9
    res.log = open(logp, errors="replace").read()
    res.wall = time.time() - t0
    rpt = os.path.join(reportdir, "%s.%s.json" % (prop, part["name"]))
    have_report = os.path.exists(rpt)
    if have_report:
        res.reports.append(json.load(open(rpt)))
    if "[build failed]" in res.log or "[setup failed]" in res.log or \
            re.search(r"^# .*\n.*\.go:\d+:\d+: ", res.log, re.M):
        if not have_report:
            res.inconclusive.append("monitor %s does not build against this tree (see %s)" % (part["name"], logp))
            return res
    if rc != 0 and not have_report:
        # The test process died before writing its report.
        m = CRASH_RE.search(res.log)
        timed_out = "test timed out after" in res.log or rc == -9
        lockwait = None
        if timed_out and part.get("lockwait_is_violation"):
            # Goroutines that the dump shows waiting for a lock for minutes with
            # a function of the product (not of the harness) on the stack.
            for g in res.log.split("\n\n"):
                g = g.strip()
                mh = re.match(r"goroutine \d+ [^\[]*\[(?:sync\.(?:RW)?Mutex\.R?Lock|semacquire)[^\]]*, (\d+) minutes\]", g)
                if mh:
                    mins = int(mh.group(1))
                elif re.match(r"goroutine \d+ [^\[]*\[sync\.(?:RW)?Mutex\.R?Lock, synctest group \d+\]", g):
                    # (Inside a testing/synctest bubble the dump gives no
                    # waiting time; the histories there run on one goroutine.)
                    mins = tmo // 60
                else:
                    continue
                lines = g.split("\n")
                for i in range(1, len(lines) - 1, 2):
                    fm = re.search(r"AdGuardHome/internal/([\w/]+)\.([\w\.\(\)\*]+)\(", lines[i])
                    if fm and "_test.go" not in lines[i + 1] and "verif" not in fm.group(2).lower():
                        lockwait = ("%s.%s" % fm.groups(), g[:3000], mins)
                        break
                if lockwait:
                    break
        if lockwait:
            res.crash_violations.append({
                "key": "deadlock:" + lockwait[0],
                "what": "monitor process did not finish within its watchdog (%ds): a goroutine has been waiting for a lock inside the product for %d minutes" % (tmo, lockwait[2]),
                "witness": {"waiting_goroutine": lockwait[1]}})
        elif timed_out and part.get("hang_is_violation"):
            res.crash_violations.append({
                "key": "hang:" + part["name"],
                "what": "monitor process did not finish within its watchdog (%ds); goroutine dump in witness" % tmo,
                "witness": {"log_tail": res.log[-6000:]}})
        elif m and not timed_out and part.get("crash_is_violation", True):
            frames = re.findall(r"AdGuardHome/internal/([\w/]+)\.([\w\.\(\)\*]+)\(", res.log[m.start():])
            frames = [f for f in frames if "verif" not in f[1].lower() and "verif" not in f[0]]
            top = "%s.%s" % frames[0] if frames else "unknown"
            res.crash_violations.append({
                "key": "crash:" + top,
                "what": "process crashed: " + res.log[m.start():m.start() + 200].split("\n")[0],
                "witness": {"log_tail": res.log[m.start():m.start() + 6000]}})
        else:
            res.inconclusive.append("monitor %s exited with %s without a report (see %s)" % (part["name"], rc, logp))
    elif rc == 0 and not have_report:
        res.inconclusive.append("monitor %s produced no report (does its -run pattern match a test?) (see %s)" % (part["name"], logp))
    elif rc != 0 and have_report:
        # Harness wrote a report but go test still failed (e.g. race detector
        # exit code, or t.Error used for diagnostics).  Race blocks are
        # handled from the race logs; anything else is noted.
        pass
    # Race logs.
    if part.get("race") or (part.get("binary") or {}).get("race"):
        from racelog import parse_race_logs
        races = parse_race_logs(glob.glob(os.path.join(reportdir, "race.%s.*" % part["name"])), res.log)
        res.races = races
    else:
        res.races = []
    return res


def load_known():
    p = os.path.join(VERIF, "known_findings.json")
    if not os.path.exists(p):
        return []
    return json.load(open(p)).get("findings", [])


def run_property(prop, tier, seed, keep=False):
    if prop not in REGISTRY:
        print("INCONCLUSIVE property=%s reason=no monitor registered" % prop)
        return 2
    spec = REGISTRY[prop]
    t0 = time.time()
    # Witness files of an earlier run with the same parameters are stale.
    for old in glob.glob(os.path.join(VERIF, "replays", "%s-%s-seed%d-*.json" % (prop, tier, seed))):
        try:
            os.remove(old)
        except OSError:
            pass
    builddir = scratch_root()
    reportdir = os.path.join(builddir, "reports")
    os.makedirs(reportdir)
    results = []
    try:
        for part in spec["parts"]:
            if tier == "quick" and part.get("thorough_only"):
                continue
            kind = part.get("kind", "gotest")
            if kind == "gotest":
                results.append(run_go_part(prop, part, tier, seed, builddir, reportdir))
            elif kind == "py":
                mod = __import__(part["module"])
                results.append(mod.run(prop, part, tier, seed, builddir, reportdir))
            else:
                raise RuntimeError("unknown part kind " + kind)
        return finish(prop, spec, tier, seed, results, t0, builddir)
    finally:
        if keep:
            print("scratch kept at", builddir)
        else:
            shutil.rmtree(builddir, ignore_errors=True)


def finish(prop, spec, tier, seed, results, t0, builddir):
    known = [k for k in load_known() if k.get("property") == prop]
    open_known = {k["key"]: k for k in known if k.get("status") == "open"}
    violations = []
    inconclusive = []
    cov = {
        "evaluations": 0, "distinct_nontrivial": 0, "rule": "", "samples": [],
        "classes": {}, "monitor_events": {}, "unspecified_zone_hits": {},
        "parts": {},
    }
    assumptions = []
    rules = []
    for r in results:
        inconclusive += r.inconclusive
        for v in r.crash_violations:
            violations.append(v)
        for rc in getattr(r, "races", []):
            violations.append(rc)
        for rep in r.reports:
            cov["evaluations"] += rep.get("evaluations", 0)
            cov["distinct_nontrivial"] += rep.get("distinct_nontrivial", 0)
            if rep.get("rule"):
                rules.append("[%s] %s" % (rep.get("part"), rep["rule"]))
            for s in (rep.get("samples") or [])[:6]:
                cov["samples"].append(s)
            for fld, dst in (("classes", "classes"), ("events", "monitor_events"),
                             ("unspecified_zone_hits", "unspecified_zone_hits")):
                for k, v in (rep.get(fld) or {}).items():
                    cov[dst]["%s/%s" % (rep.get("part"), k)] = v
            cov["parts"][rep.get("part")] = {
                "evaluations": rep.get("evaluations", 0),
                "distinct_nontrivial": rep.get("distinct_nontrivial", 0),
                "violations_total": rep.get("violations_total", 0),
                "wall_s": rep.get("wall_s", 0),
            }
            for v in rep.get("violations") or []:
                violations.append(v)
            for i in rep.get("inconclusive") or []:
                inconclusive.append("%s: %s" % (rep.get("part"), i))
            for a in rep.get("assumptions") or []:
                if a not in assumptions:
                    assumptions.append(a)
        if hasattr(r, "extra_cov"):
            cov.update(r.extra_cov)
    cov["rule"] = " ; ".join(rules)
    cov["known_findings_matched"] = []
    if cov["evaluations"] == 0 and not violations:
        inconclusive.append("no case was evaluated")
    elif cov["distinct_nontrivial"] < 2 and not violations:
        inconclusive.append("fewer than 2 distinct non-trivial cases observed")

    # Split violations into known findings and new ones.
    new = []
    seen_known = {}
    for v in violations:
        k = v.get("key", "")
        if k in open_known:
            seen_known.setdefault(k, 0)
            seen_known[k] += 1
        else:
            new.append(v)
    for k, kf in open_known.items():
        n = seen_known.get(k, 0)
        print("KNOWN-FINDING: property=%s %s [key=%s; observed %d time(s) in this run]" % (prop, kf.get("what", ""), k, n))
        cov["known_findings_matched"].append({"key": k, "observed": n})

    wall = time.time() - t0
    evidence = {
        "property_id": prop,
        "tier": tier,
        "seed": seed,
        "level": spec.get("level", "exploration"),
        "coverage": cov,
        "assumptions": assumptions + spec.get("assumptions", []),
        "wall_s": round(wall, 2),
        "violations": len(new),
        "verdict": "violated" if new else ("inconclusive" if inconclusive else "held on what was observed"),
        "inconclusive_reasons": inconclusive,
    }
    if not cov["samples"]:
        cov["samples"] = ["(no sample recorded)"]
    # Self-validation runs against another tree (VERIF_REPO) must not overwrite
    # the evidence that describes /repo.
    evdir = os.path.join(VERIF, "evidence")
    if os.path.realpath(REPO) != "/repo":
        evdir = os.environ.get("VERIF_EVIDENCE_DIR", os.path.join(VERIF, "replays", "evidence-other-tree"))
    os.makedirs(evdir, exist_ok=True)
    with open(os.path.join(evdir, prop + ".json"), "w") as fh:
        json.dump(evidence, fh, indent=1, default=str)
        fh.write("\n")

    print("property=%s tier=%s seed=%d evaluations=%d distinct_nontrivial=%d wall=%.1fs" % (
        prop, tier, seed, cov["evaluations"], cov["distinct_nontrivial"], wall))
    if new:
        os.makedirs(os.path.join(VERIF, "replays"), exist_ok=True)
        by_key = {}
        for v in new:
            by_key.setdefault(v.get("key", ""), []).append(v)
        for k, vs in sorted(by_key.items()):
            h = hashlib.sha256(k.encode()).hexdigest()[:10]
            path = os.path.join(VERIF, "replays", "%s-%s-seed%d-%s.json" % (prop, tier, seed, h))
            with open(path, "w") as fh:
                json.dump({"property": prop, "tier": tier, "seed": seed, "key": k,
                           "violations": vs}, fh, indent=1, default=str)
            print("  witness key=%s what=%s" % (k, vs[0].get("what", "")[:300]))
            print("VIOLATION property=%s replay=%s" % (prop, path))
        return 1
    if inconclusive:
        for i in inconclusive:
            print("INCONCLUSIVE property=%s reason=%s" % (prop, i))
        return 2
    return 0
