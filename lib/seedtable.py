#!/usr/bin/env python3
"""Prints the markdown table of seeded changes for DESIGN.md section 10 from
/verif/seeded/*/meta.json and run.log."""
import glob, json, os, re, sys
COMPACT = "--compact" in sys.argv
rows = []
for d in sorted(glob.glob("/verif/seeded/*/")):
    sid = os.path.basename(d.rstrip("/"))
    m = json.load(open(d + "meta.json"))
    log = open(d + "run.log").read() if os.path.exists(d + "run.log") else ""
    keys = re.findall(r"witness key=(\S+)", log)
    chk = re.search(r"check (\S+) (\S+) against change: rc=(\d)", log)
    summ = re.sub(r"\s+", " ", str(m.get("summary", ""))).replace("|", "/")
    needs = re.sub(r"\s+", " ", str(m.get("needs_to_manifest", ""))).replace("|", "/")
    if m.get("detected"):
        if keys:
            caught = "`" + keys[0][:90].replace("|", "/") + "`"
        else:
            caught = m.get("confirmed", {}).get("note", "detected")[:160]
        part = chk.group(1) if chk else sid.split("-")[0]
        caught = part + " " + caught
    elif m.get("excluded"):
        caught = "not applicable — " + m["excluded"][:260]
    else:
        caught = "**missed** — " + m.get("confirmed", {}).get("note", "see text below")[:200]
    if COMPACT:
        rows.append("| %s | %s | %s |" % (sid, summ[:170], caught))
    else:
        rows.append("| %s | %s | %s | %s |" % (sid, summ, needs, caught))
if COMPACT:
    print("| seeded | change (cut; full text in seeded/INDEX.md and meta.json) | caught by (first violation key, quick tier) |")
    print("|---|---|---|")
else:
    print("| seeded | change | what it needs | caught by (first violation key, quick tier) |")
    print("|---|---|---|---|")
print("\n".join(rows))
