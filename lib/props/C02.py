SPEC = {
    "level": "exploration",
    "parts": [
        {"name": "response", "pkg": "./internal/dnsforward/", "run": "^TestVerifC02$",
         "harness": ["dnsforward/common_*.go", "dnsforward/c01_*.go", "dnsforward/c02_*.go"], "race": True,
         "timeout_quick": 900, "timeout_thorough": 3400},
        # Answers revealing an always-blocked value asked for while the engines
        # are rebuilt (rule changes, refreshes, rebuilds that fail).
        {"name": "reload", "pkg": "./internal/dnsforward/", "run": "^TestVerifC02Reload$",
         "harness": ["dnsforward/common_*.go", "dnsforward/c01_*.go", "dnsforward/c02_*.go"], "race": True,
         "timeout_quick": 900, "timeout_thorough": 3400},
    ],
}

CLAIM = {
    "text": "A scripted in-memory upstream returns generated answer sections (CNAME chains of length 0-4, several A/AAAA, HTTPS records with ipv4/ipv6 hints, unrelated MX/TXT, shuffled order) to a real dnsforward.Server queried over UDP/TCP; rule sets cover names and IP literals with allow-list and exception overrides, all blocking modes, AAAA-disabled, protection/filtering flags. The oracle walks the answer in order with an independent model: the first value blocked (and not overridden for that same value) must turn the reply into the blocking-mode answer for the original question with no upstream record delivered and the upstream answer kept as the log's original answer; otherwise the upstream answer must arrive unchanged. A position sweep puts each kind of offending record at every index. Upstream answers also come with NXDOMAIN and a non-empty answer section (dangling alias). A second part (reload) keeps asking names whose upstream answer reveals a value blocked in every configuration while the engines are rebuilt through the admin API (rule changes, refresh of a large list, rule changes during which a list file cannot be opened so that the rebuild fails): no reply may deliver the upstream records; the values live in custom rules and in a subscribed list file (400 names, mostly not looked at yet by the current engine), and a name that the subscribed allowlist allows in every configuration must be delivered throughout. The reload part also refreshes a small list while no file of the process can grow (RLIMIT_FSIZE), switches a configured, switched-off list on again after a restart, and one answer in twelve carries 30-70 further addresses in front.",
    "note": "Trusted: urlfilter's matching of one rule against one value. Unspecified zones counted: default-mode address when a host rule of the other family matches; IPv6-hint stripping when response filtering is not applicable.",
    "technique": "runtime monitor: reference-model oracle over scripted upstream answers, real sockets (go test -race)",
}
