SPEC = {
    "level": "exploration",
    "parts": [
        {"name": "response", "pkg": "./internal/dnsforward/", "run": "^TestVerifC02$",
         "harness": ["dnsforward/common_*.go", "dnsforward/c01_*.go", "dnsforward/c02_*.go"], "race": True,
         "timeout_quick": 900, "timeout_thorough": 3400},
    ],
}

CLAIM = {
    "text": "A scripted in-memory upstream returns generated answer sections (CNAME chains of length 0-4, several A/AAAA, HTTPS records with ipv4/ipv6 hints, unrelated MX/TXT, shuffled order) to a real dnsforward.Server queried over UDP/TCP; rule sets cover names and IP literals with allow-list and exception overrides, all blocking modes, AAAA-disabled, protection/filtering flags. The oracle walks the answer in order with an independent model: the first value blocked (and not overridden for that same value) must turn the reply into the blocking-mode answer for the original question with no upstream record delivered and the upstream answer kept as the log's original answer; otherwise the upstream answer must arrive unchanged. A position sweep puts each kind of offending record at every index.",
    "note": "Trusted: urlfilter's matching of one rule against one value. Unspecified zones counted: default-mode address when a host rule of the other family matches; IPv6-hint stripping when response filtering is not applicable.",
    "technique": "runtime monitor: reference-model oracle over scripted upstream answers, real sockets (go test -race)",
}
