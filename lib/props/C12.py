SPEC = {
    "level": "exploration",
    "parts": [
        {"name": "auth", "pkg": "./internal/home/", "run": "^TestVerifC12$",
         "harness": ["home/c12_*.go"], "synctest": True,
         "timeout_quick": 600, "timeout_thorough": 3000},
        {"name": "logoutrace", "pkg": "./internal/home/", "run": "^TestVerifC12LogoutRace$",
         "harness": ["home/c12_logoutrace_test.go"], "race": True,
         "timeout_quick": 600, "timeout_thorough": 1800},
        {"name": "limiterrace", "pkg": "./internal/home/", "run": "^TestVerifC12LimiterRace$",
         "harness": ["home/c12_limiterrace_test.go"], "race": True,
         "timeout_quick": 600, "timeout_thorough": 1800},
    ],
}

CLAIM = {
    "text": "Seeded timed histories (attempt limit 1/2/3/5, block 30 s/15 min, session TTL 60 s/1 h/30 d, 1-4 client addresses incl. IPv6, varying source ports; per attempt none/one/several of X-Real-IP, X-Forwarded-For, CF-Connecting-IP, True-Client-IP claiming addresses inside the configured trusted proxies, other clients, outside addresses or garbage; peers inside and outside trusted_proxies) of bad/good logins, cookie-authenticated requests through an optionalAuth-wrapped probe and logouts through optionalAuth(handleLogout) (single cookie, or several agh_session cookies: live token first/last/duplicated/next to stale, malformed, empty ones), cookie-less Basic-auth requests with right and bad credentials from the login addresses (also while blocked), clock advances to 1 s before/after window, block and expiry edges, restarts (Close + InitAuth on the same sessions.db) and storage faults (sessions bucket deleted / bbolt handle closed, so that writes fail until the next restart), plus a scripted family in which 100-2100 addresses hold a live failure record while a new address reaches the limit, are run through the real handleLogin/optionalAuth/handleLogout on virtual time (testing/synctest). A shadow model checks implications only: max consecutive failures inside a minute from a clean state => every attempt in the following block period is answered 429 and gets no cookie, right password included; a 429 => the last max evaluated attempts of that address are failures within a minute and the last is at most one block period old; right password otherwise => 200 + fresh cookie; a token is accepted while t < created+TTL, rejected after last-accepted+TTL, after its logout and when it was never issued, before and after restarts; after an accepted logout request the token that authenticated it is dead; Basic-auth requests never lift a block. Part logoutrace (real time, race detector): rounds in which 1-3 cookie-authenticated requests that take the once-a-day expiry prolongation run concurrently with GET /control/logout for the same cookie; after all returned, and again after Auth is re-created from sessions.db, the cookie must be refused. Exploration: held on the histories and interleavings observed, which the evidence counts.",
    "note": "Trusted: testing/synctest virtual clock (Go 1.24 experiment). The throttled address is the connecting peer unless the peer itself is a trusted proxy. Not asserted (counted as unspecified zones): a valid token behind an invalid first session cookie, other valid tokens of an accepted logout request, whether failed Basic-auth attempts count as failed logins, attribution of attempts from a trusted-proxy peer that carry forwarding headers, sliding vs anchored reading of 'within a minute' once older failures may still count, whether blocked attempts extend a block, throttle state across restarts, what a restart restores from a sessions.db that could not be written, acceptance between the initial expiry and last-use+TTL (daily refresh), behaviour exactly on an edge (1 s granularity).",
    "technique": "runtime monitor: lock-step shadow model with implication oracle over seeded timed histories on virtual time (in-package handlers via httptest)",
}
