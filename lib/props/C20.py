SPEC = {
    "level": "exploration",
    "parts": [
        {"name": "files", "pkg": "./internal/querylog/", "run": "^TestVerifC20$",
         "harness": ["querylog/c20_*.go"], "timeout_quick": 600, "timeout_thorough": 3000,
         "hang_is_violation": True},
    ],
}

CLAIM = {
    "text": "Seeded generation of query-log file sets (quick: 1000 sets, thorough: 12000; one file, or rotated + current; 0 to about 1200 lines per file, line contents of 60 to 16383 bytes in five length classes, up to 4 MB per set in the quick tier and 10 MB in the thorough tier, strictly increasing RFC3339Nano timestamps with gaps from 1 ns to days, several UTC offsets; three profiles place a 16383-byte line at chosen byte distances from the edge of the 1.6 MB read window and from the first probe of the binary search, or make the file exactly one window large). The real newQLogFile/newQLogReader SeekStart, ReadNext and seekTS are run on them and compared with the generated line list: full backward sweeps before and after the seeks, seeks to present timestamps followed by 2 to 300 reads (also across the file boundary), seeks to absent timestamps (before the first, after the last, between neighbours, between the two files, empty files) which must report not-found/too-early/too-late and leave later reads intact. Reuse histories on one reader / one file object (SeekStart, seekTS present, seekTS absent before everything / between neighbours of either file / between the files / after everything, seekRecord with zero, present and absent times, ReadNext x n, about 14 steps, 3 per file set plus one per file) carry a model of the position from step to step; directly after a seek that reported an error the reads must continue from the position before the seek or from the start of the log, every record once, down to io.EOF. Every call runs under a 20 s watchdog; a hang or panic is a violation. Exploration: held on the cases observed, which the evidence counts.",
    "note": "Unexported API is used because it is the property's observation point. The multi-file reader deliberately reports success for a timestamp later than a whole file (pinned by the product's own test); that is tolerated and counted as an unspecified-zone hit as long as the following reads return only entries older than the target, newest first. The obvious mapping of target class to error class is recorded, not asserted. Position after a failed seek: neither documented nor relied upon by the product (setQLogReader closes the reader when the seek fails); the unchanged code leaves the position untouched; the monitor accepts that or the start of the log and counts which.",
    "technique": "runtime monitor: generated-input oracle (the generated line list) over the real file readers, watchdog for non-termination",
}
