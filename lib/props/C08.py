SPEC = {
    "level": "exploration",
    "parts": [
        {"name": "pkg", "pkg": "./internal/dnsforward/", "run": "^TestVerifC08Pkg$",
         "harness": ["dnsforward/common_*.go", "dnsforward/c01_test.go", "dnsforward/c08_*.go"],
         "timeout_quick": 900, "timeout_thorough": 3400},
        {"name": "system", "pkg": "./internal/verifsys/", "run": "^TestVerifC08$",
         "harness": ["verifsys/doc.go", "verifsys/common_*.go", "verifsys/c05_*.go", "verifsys/c08_*.go"],
         "binary": {"race": False}, "compile_then_run": True,
         "timeout_quick": 900, "timeout_thorough": 3400},
    ],
}

CLAIM = {
    "text": "The real binary is configured through its admin API with generated ignore lists for the query log and for statistics (||class^ rules, plain names, wildcards, the root '|.^'), persistent clients flagged ignore_querylog / ignore_statistics and identified by exact IP, CIDR and ClientID, and anonymisation on or off. Queries carrying unique labels (mixed letter case) are sent from loopback aliases over UDP, TCP and plain-HTTP DoH with ClientIDs. Presence or absence of every label, of flagged clients and of un-anonymised addresses is then observed at all observation points: the query-log API, querylog.json (after a clean shutdown), the statistics API (totals, top domains, top clients) and the raw bytes of stats.db. The ignore list is also changed after entries were logged to check that the API stops returning them. Added later: flagged clients saved again and updates refused while they send queries; a client flagged after its entries were stored, then anonymisation switched on; a restart followed by a read of the files only; ignored names rewritten to a name whose upstream exchange fails; static DHCP leases as runtime information inside a flagged network; AAAA questions of a flagged ClientID client under aaaa_disabled.",
    "note": "A package tier feeds crafted request contexts (IPv6, IPv4-mapped, ClientID) through the real server pipeline with the real query log, statistics and client registry wired as package home wires them; the system tier uses real sockets (every fourth configuration with a dual-stack listener). MAC-identified clients need a DHCP lease and are not exercised. Absence is asserted on byte level, so it cannot be fooled by the decoder.",
    "technique": "runtime monitor: unique-label tracing through log/statistics files and APIs of the real binary",
}
