SPEC = {
    "level": "exploration",
    "parts": [
        {"name": "system", "pkg": "./internal/verifsys/", "run": "^TestVerifC08$",
         "harness": ["verifsys/doc.go", "verifsys/common_*.go", "verifsys/c05_*.go", "verifsys/c08_*.go"],
         "binary": {"race": False}, "compile_then_run": True,
         "timeout_quick": 900, "timeout_thorough": 3400},
    ],
}

CLAIM = {
    "text": "The real binary is configured through its admin API with generated ignore lists for the query log and for statistics (||class^ rules, plain names, wildcards, the root '|.^'), persistent clients flagged ignore_querylog / ignore_statistics and identified by exact IP, CIDR and ClientID, and anonymisation on or off. Queries carrying unique labels (mixed letter case) are sent from loopback aliases over UDP, TCP and plain-HTTP DoH with ClientIDs. Presence or absence of every label, of flagged clients and of un-anonymised addresses is then observed at all observation points: the query-log API, querylog.json (after a clean shutdown), the statistics API (totals, top domains, top clients) and the raw bytes of stats.db. The ignore list is also changed after entries were logged to check that the API stops returning them.",
    "note": "IPv6 client addresses are not exercised over real sockets (the server listens on 127.0.0.1 only); MAC-identified clients need a DHCP lease and are not exercised. Absence is asserted on byte level, so it cannot be fooled by the decoder.",
    "technique": "runtime monitor: unique-label tracing through log/statistics files and APIs of the real binary",
}
