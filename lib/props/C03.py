SPEC = {
    "level": "exploration",
    "parts": [
        {"name": "decision", "pkg": "./internal/dnsforward/", "run": "^TestVerifC03Decision$",
         "harness": ["dnsforward/common_*.go", "dnsforward/c03_*.go"],
         "timeout_quick": 600, "timeout_thorough": 3000},
        {"name": "sockets", "pkg": "./internal/dnsforward/", "run": "^TestVerifC03Sockets$",
         "harness": ["dnsforward/common_*.go", "dnsforward/c03_*.go"], "race": True,
         "timeout_quick": 600, "timeout_thorough": 3000},
    ],
}

CLAIM = {
    "text": "Two monitors. (1) Decision sweep: generated access configurations (allowed / disallowed lists mixing IPv4 and IPv6 addresses, CIDRs of prefix lengths /0 /1 /8 /24 /31 /32 /64 /127 /128 and others, masked and unmasked, overlapping, ClientIDs; allow-mode with only ClientIDs; the same entry in both lists; empty lists; blocked-host lists of bare names, ||name^, *.name, |name^, $dnstype forms, mixed case) are loaded into a real dnsforward.Server through Prepare or through the access/set API handler, and crafted proxy.DNSContext values for all six protocols (addresses on and next to every list entry and CIDR edge, zoned, IPv4-mapped; ClientID in SNI, DoH path or Host) are given to Server.IsBlockedClient and Server.HandleBefore. A reference model written from the statement decides excluded / blocked name; the result of HandleBefore must be exactly what makes dnsproxy stay silent (UDP, DNSCrypt), answer REFUSED with an empty answer (TCP, DoT, DoH, DoQ) or go on (admitted). (2) Socket sweep: real servers on loopback UDP, TCP and DoT with a self-signed certificate; clients bind to 127.0.0.2-127.0.0.40 and carry ClientIDs in the SNI; an excluded request over UDP must produce no datagram by the time a later fence exchange from an admitted alias has completed plus a grace period, over TCP/DoT a REFUSED reply with an empty answer, and in both cases no call of the (in-memory, logging) upstream, no query-log entry and no statistics entry for its unique name; admitted requests must be answered with the upstream's marker record, logged and counted once.",
    "note": "Trusted: urlfilter's matching of one pattern other than a bare name or ||name^ against one name; dnsproxy's documented handling of the BeforeRequestHandler result (read in v0.75.3) for the decision part; miekg/dns as client. Unspecified zones (counted, not asserted): ClientID and list entry differing only in letter case, exact-IP entries vs zoned client addresses, IPv4-mapped vs plain IPv4 on either side. 'No reply on UDP' uses a real-time grace period after the fence: a late datagram can only turn a violation into a miss, never raise an alarm. DoH, DoQ and DNSCrypt are exercised at the HandleBefore boundary only.",
    "technique": "runtime monitor: reference-model oracle over seeded crafted contexts at the HandleBefore boundary + wire-level monitor with upstream / query-log / statistics sinks over real loopback sockets (go test -race)",
}
