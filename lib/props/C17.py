SPEC = {
    "level": "exploration",
    "parts": [
        {"name": "paths", "pkg": "./internal/filtering/", "run": "^TestVerifC17$",
         "harness": ["filtering/c17_*.go"], "timeout_quick": 600, "timeout_thorough": 3000},
        # Syscall-level observer: the sweep again in a child under strace.
        {"name": "opens", "pkg": "./internal/filtering/", "run": "^TestVerifC17Opens$",
         "harness": ["filtering/c17_*.go"], "timeout_quick": 900, "timeout_thorough": 3000,
         "thorough_only": False},
    ],
}

CLAIM = {
    "text": "TODO",
    "note": "TODO",
    "technique": "runtime monitor: independent path-matching oracle over seeded locations, content canaries (HTTP/exported API)",
}
