SPEC = {
    "level": "exploration",
    "parts": [
        {"name": "paths", "pkg": "./internal/filtering/", "run": "^TestVerifC17$",
         "harness": ["filtering/c17_*.go"], "timeout_quick": 600, "timeout_thorough": 3000},
        # Syscall-level observer: the sweep again in a child under strace.
        {"name": "opens", "pkg": "./internal/filtering/", "run": "^TestVerifC17Opens$",
         "harness": ["filtering/c17_*.go"], "timeout_quick": 900, "timeout_thorough": 3000,
         "thorough_only": True},
    ],
}

CLAIM = {
    "text": "Seeded sweep of (safe_fs_patterns list, location string, entry point). Pattern lists: none, exact paths, *, ?, [..] classes, directory globs of several depths, relative patterns, escaped meta characters, malformed patterns. Locations: every file of a 26-file tree plainly, plus spellings with dot-dot through existing and missing directories, '.', doubled and trailing separators, relative forms (the process cwd lies inside the tree), file:/ftp:/other schemes, mixed-case schemes, NUL/newline/space bytes, percent-encoding, backslashes, changed case, system files, spellings constructed to match a pattern only before cleaning, and http lists of a local server as positive controls. Entry points: POST add_url, POST set_url (directly and via a disabled list that is then enabled), and two refreshes of lists written straight into Config.Filters/WhitelistFilters of a fresh DNSFilter. Every tree file holds a unique rule; its content may become observable (stored data/filters file, response body, rules_count, CheckHost) only if the file's cleaned absolute path matches a pattern by an independent filepath.Match oracle; a location none of whose readings matches must be refused with 4xx at add/set and count no rules; plain paths that match and the http controls must be taken. Thorough tier repeats a sweep in a child under strace -f -y and asserts that no open/openat returns a tree file outside the patterns in force. Exploration: held on the cases observed, which the evidence counts.",
    "note": "No symbolic links are created (the statement's 'cleaned absolute path' is then the file). Unspecified and only counted: whether a decorated spelling that cleans to an allowed path (or a relative/file:// string that names one) is accepted; behaviour (including handler panics) under a malformed pattern that filtering.New let through - only soundness is asserted there. CheckHost is read after a synchronous engine rebuild; completeness expectations re-probe while an asynchronous rebuild of an earlier request is in flight (can only delay, never cause, a finding).",
    "technique": "runtime monitor: independent path-matching oracle over seeded locations with content canaries (captured HTTP handlers, exported CheckHost); strace open log as second observer (thorough)",
}
