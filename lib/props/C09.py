SPEC = {
    "level": "exploration",
    "parts": [
        {"name": "sequential", "pkg": "./internal/stats/", "run": "^TestVerifC09Sequential$",
         "harness": ["stats/c09_model_test.go", "stats/c09_seq_test.go"],
         "timeout_quick": 600, "timeout_thorough": 3000},
        {"name": "concurrent", "pkg": "./internal/stats/", "run": "^TestVerifC09Concurrent$",
         "harness": ["stats/c09_model_test.go", "stats/c09_conc_test.go"],
         "race": True, "modfile": True,
         "timeout_quick": 600, "timeout_thorough": 3000},
    ],
}

CLAIM = {
    "text": "Two monitors drive the real stats module (stats.New / Update / Close, the registered HTTP handlers GET /control/stats, PUT /control/stats/config/update, POST /control/stats_config, POST /control/stats_reset) on a logical hour injected through Config.UnitID. Sequential: seeded histories of update bursts (all five result categories, many clients/domains/upstream statistics, plus entries documented as not countable), hour advances of 1..48 h and window-sized jumps followed by the body of the hourly loop (flush), clean Close+New on the same file in the same and in a later hour, retention changes 1 h..90 d through both config handlers (crossing the hours/days reporting switch), reset and disable/enable; after every step the report is compared with a shadow map hour->category counts: every entry of the hourly series equals the queries counted in that hour, the five totals equal the sum over the hours inside [current-limit+1, current], hourly series sum to the totals, daily series do not exceed them, category totals and top lists do not exceed num_dns_queries. Concurrent (race detector on, real Start() loop alive): 8 updaters + 2 API readers + an hour advancer (flush() or the real loop) + optional retention toggler; every read must lie between the updates completed before it and those started before it returned, every round's inc/read(total) history is checked with porcupine against a counter model, and at quiescence totals, categories and per-hour counts (bounds from hour tags read before/after each Update) are checked exactly, also across a final clean restart. Exploration: held on the histories observed, which the evidence counts.",
    "note": "Accepted without assertion (counted as unspecified zones): hours that were outside the retention window at some moment since they were counted, and data collected before statistics were disabled, may be reported entirely or not at all; reports of a disabled module; placement of hours inside the daily series (the statement only bounds it by the totals). Assumed: entry i of an hourly series stands for hour current-limit+1+i. Trusted: porcupine v1.3.0, the Go race detector. Not exercised: Close or reset concurrent with a rollover, hour going backwards, uint32 wrap of the hour.",
    "technique": "runtime monitor: lock-step shadow model over seeded sequential histories; concurrent histories under -race with interval bounds, porcupine linearizability check (counter model) and exact quiescent oracle (in-package harness, HTTP handlers via httptest)",
}
