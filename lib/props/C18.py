SPEC = {
    "level": "exploration",
    "parts": [
        {"name": "contains", "pkg": "./internal/schedule/", "run": "^TestVerifC18$",
         "harness": ["schedule/c18_*.go"], "timeout_quick": 600, "timeout_thorough": 3000},
        {"name": "filter", "pkg": "./internal/filtering/", "run": "^TestVerifC18Filter$",
         "harness": ["filtering/c18_*.go"], "synctest": True, "timeout_quick": 600, "timeout_thorough": 3000},
        # Schedule replaced through the admin handler while requests are filtered
        # (real time, race detector on).
        {"name": "updates", "pkg": "./internal/filtering/", "run": "^TestVerifC18Updates$",
         "harness": ["filtering/c18_*.go"], "synctest": True, "race": True,
         "timeout_quick": 600, "timeout_thorough": 3000},
        # Requests through the real server, alternating between a client with a
        # schedule of its own and senders under the global one.
        {"name": "pipeline", "pkg": "./internal/dnsforward/", "run": "^TestVerifC18Pipeline$",
         "harness": ["dnsforward/common_*.go", "dnsforward/c01_*.go", "dnsforward/c18_*.go"],
         "timeout_quick": 600, "timeout_thorough": 3000},
    ],
}

CLAIM = {
    "text": "Four parts. PIPELINE: requests for names of blocked services go through a real dnsforward.Server over UDP/TCP, alternating between a persistent client with blocked services and a pause schedule of its own and senders under the global ones (schedules: all week, empty, or a whole-day range in a fixed-offset zone where it is another weekday); each request must be decided by the schedule that applies to its own sender, whatever request came before. UPDATES: the global pause schedule is replaced through PUT /control/blocked_services/update (schedules whose state at the real instant is unambiguous) while 8 goroutines filter requests; every request started after the handler returned must follow the new schedule (race detector on). FILTER: on virtual time (testing/synctest) a real DNSFilter with a global blocked-services schedule and a client with its own schedule and service list is asked, at instants walked through weeks incl. range edges and DST days, whether a service name is blocked (ApplyAdditionalFiltering + CheckHost); it must be blocked exactly when the service is in the effective list and the effective schedule does not contain the instant by wall-clock reckoning. CONTAINS: Seeded sweep of (IANA zone on the host, weekly schedule, instant) triples: Weekly values are built through the real JSON/YAML decoders and Contains is compared with an independent wall-clock oracle; instants concentrate on every UTC-offset transition 2020-2030 of the zone, range edges +-1ns/+-1min and local midnights. JSON/YAML round trips and rejection of invalid ranges (with a positive control) are swept as well. Exploration: held on the cases observed, which the evidence counts. Instants also lie around and before the Unix epoch, at the ends of 32-bit second counters and in distant years; bounds of the form valid value + k*2^s and ranges ending at 00:00 with any start must be rejected; in the updates part the list of services changes together with the schedule and a request that overlapped updates must be decided as one of the configurations in force during it decides as a whole.",
    "note": "Trusted: Go's time package and the host's zoneinfo database as ground truth for wall-clock readings; the oracle never uses elapsed-time arithmetic.",
    "technique": "runtime monitor: reference-model oracle over seeded inputs (exported API)",
}
