SPEC = {
    "level": "exploration",
    "parts": [
        {"name": "registry", "pkg": "./internal/client/", "run": "^TestVerifC04$",
         "harness": ["client/c04_registry_test.go"], "timeout_quick": 600, "timeout_thorough": 3000},
        {"name": "concurrent", "pkg": "./internal/client/", "run": "^TestVerifC04Concurrent$",
         "harness": ["client/c04_registry_test.go", "client/c04_concurrent_test.go"],
         "race": True, "modfile": True, "timeout_quick": 600, "timeout_thorough": 3000},
    ],
}

CLAIM = {
    "text": "Seeded histories (5-60 operations: add / update with rename, replaced, dropped, added or stolen identifiers, no-op / remove / DHCP lease change) are run against a fresh client.Storage through its exported API with a scripted DHCP fake, over 8 client names and an identifier pool built to collide (exact IPs, nested and equal-length v4/v6 CIDRs, zoned address, MACs of 6/8/20 bytes sharing prefixes, ClientIDs). After every operation every name, ClientID, MAC and address is looked up (Find, FindByName, RangeByName, Size) and every (ClientID present/absent/unknown) x (address) request goes through ApplyClientFiltering with the global switches all off and all on; owner, record contents and the written settings (name, tags, four flags, safe-search object, blocked services, and the blocked-service rules produced by filtering.ApplyAdditionalFiltering) are compared with a shadow registry computed from the statement. Operations sharing a name/identifier must return an error; after an error every lookup must read as before. Concurrent part (race detector on): rounds of a fresh storage with 1-3 clients, 2-4 writer goroutines doing seeded Add / Update (new identifiers, mostly with custom upstreams) / RemoveByName on the same 3 names and 1-2 reader goroutines (FindByName, Find, ApplyClientFiltering), released together; every call is recorded with its result on a logical clock. At quiescence: names unique, FindByName agrees with RangeByName, no identifier listed twice, every identifier and probe address resolves (Find, ApplyClientFiltering) exactly to the client that lists it or to nobody, and every identifier and name nobody holds can be taken by a new client; the whole recorded history is checked with porcupine against the sequential registry. Exploration: held on the histories observed, which the evidence counts.",
    "note": "Trusted: Persistent.SetIDs for turning identifier strings into typed identifiers. Not judged (counted as unspecified): non-canonical CIDR spellings, other MAC spellings / letter case, upper-case ClientIDs, colon spelling of 8-byte MACs (also an IPv6 address). The concurrent part judges results and final state, not data races as such (C05's subject), although it runs under -race. Trusted: porcupine v1.3.0.",
    "technique": "runtime monitor: shadow-model oracle over seeded operation histories; concurrent rounds under -race with quiescent structural invariants and a porcupine linearizability check (exported API)",
}
