SPEC = {
    "level": "exploration",
    "parts": [
        {"name": "migrate", "pkg": "./internal/configmigrate/", "run": "^TestVerifC13$",
         "harness": ["configmigrate/c13_*.go"], "timeout_quick": 600, "timeout_thorough": 3000},
        {"name": "load", "pkg": "./internal/home/", "run": "^TestVerifC13Load$",
         "harness": ["home/c13_*.go"], "timeout_quick": 600, "timeout_thorough": 1200},
    ],
}

CLAIM = {
    "text": "TODO",
    "note": "TODO",
    "technique": "runtime monitor: differential / metamorphic oracle over seeded mutated documents (exported API)",
}
