SPEC = {
    "level": "exploration",
    "parts": [
        # Refresh sequences against a scripted list server / local files.
        {"name": "refresh", "pkg": "./internal/filtering/", "run": "^TestVerifC15Refresh$",
         "harness": ["filtering/c15_*.go"], "timeout_quick": 900, "timeout_thorough": 3000},
        # The same sequences on virtual time: the product's own update timer fires the
        # scheduled refreshes, sources are an in-memory RoundTripper and local files.
        {"name": "scheduled", "pkg": "./internal/filtering/", "run": "^TestVerifC15Scheduled$",
         "harness": ["filtering/c15_*.go"], "synctest": True, "timeout_quick": 900, "timeout_thorough": 3000},
        # Direct sweep of the rule-list parser (normal form is a fixed point).
        {"name": "parser", "pkg": "./internal/filtering/rulelist/", "run": "^TestVerifC15Parser$",
         "harness": ["filtering__rulelist/c15_*.go"], "timeout_quick": 600, "timeout_thorough": 1800},
    ],
}

CLAIM = {
    "text": "Seeded refresh sequences (3-10 forced refreshes each, through the real POST /control/filtering/refresh handler, block and allow lists, 2-5 lists per DNSFilter) against a real loopback net/http list server with a per-request fault script (refused connection, close before / inside the headers, 403/404/500/503/206, Content-Length larger than the body sent - cut mid-line, at a line boundary and right after the headers -, aborted chunked body, truncated gzip body, HTML after comment lines, binary content) and against local files under a safe pattern (rewritten, vanished, replaced by a directory or a dangling symlink). Before and after every step the monitor snapshots, for every list of the DNSFilter, the bytes and inode of data/filters/<id>.txt, rules_count / last_updated from GET /control/filtering/status, the stored checksum, and the answers of GET /control/filtering/check_host for the probe names of the content in force, of the content being served and of a never-listed name. Asserted: a step that failed in one of the enumerated ways, and every list the step did not address, leaves all of these identical; a successful step stores exactly the output of an independent normaliser (drop blank and comment lines, trim) applied to the served text, reports its line count, re-parses to the same count and checksum, puts the new probe rule in force and retires the old one; content with an unchanged normal form keeps its inode. A second part sweeps rulelist.Parser directly: accepted output is a normal form, free of blank / comment / untrimmed lines, and a fixed point (bytes, count, checksum). Exploration: held on the cases observed, which the evidence counts.",
    "note": "Unspecified zones (either outcome accepted, hits counted): lone CR inside a line, Unicode / VT / FF white space at line edges, isolated control bytes, '<html' after the first rule, lines longer than 64 KiB, changed content whose checksum collides with the stored one (the checksum covers the rule bytes without separators), an empty list when no file exists yet. last_updated and the file's mtime are bumped by the product on every attempt and are recorded, not asserted. A rebuild of the engines from an unchanged file is not observable as a change of the rules in force and is not asserted. Not generated: a short body that HTTP cannot detect (no length, no chunking), client time-outs (wall clock). The scheduled (timer-driven) refresh is driven by calling the periodic entry point directly, not by waiting for the timer.",
    "technique": "runtime monitor: before/after snapshots at the file / HTTP-API boundary around scripted fault sequences, independent normaliser as reference; seeded parser sweep",
}
