SPEC = {
    "level": "exploration",
    "parts": [
        {"name": "lookup", "pkg": "./internal/filtering/hashprefix/", "run": "^TestVerifC19$",
         "harness": ["filtering__hashprefix/c19_*.go"], "synctest": True,
         "timeout_quick": 600, "timeout_thorough": 3000},
        {"name": "freshness", "pkg": "./internal/filtering/hashprefix/", "run": "^TestVerifC19Fresh$",
         "harness": ["filtering__hashprefix/c19_*.go"], "synctest": True,
         "timeout_quick": 600, "timeout_thorough": 3000},
        {"name": "concurrent", "pkg": "./internal/filtering/hashprefix/", "run": "^TestVerifC19Concurrent$",
         "harness": ["filtering__hashprefix/c19_*.go"], "synctest": True, "race": True,
         "timeout_quick": 600, "timeout_thorough": 3000},
        {"name": "filter", "pkg": "./internal/filtering/", "run": "^TestVerifC19Filter$",
         "harness": ["filtering/c19_*.go"],
         "timeout_quick": 600, "timeout_thorough": 3000},
    ],
}

CLAIM = {
    "text": "Seeded histories of 5-40 Check calls and clock advances (virtual time) share one hashprefix.Checker (cache 10 B .. unlimited, cache time 5 s .. 1 h) wired to an in-memory lookup service that logs every request and answers from a database of full SHA-256 hashes (the name, parents, siblings, sub-domains that must not count, other names sharing a 2-byte prefix taken from a pool of 200k hashed names, optional malformed TXT strings). Every request is compared with an independent enumeration of the allowed sub-domains (last four labels, ICANN suffix dropped, fixed suffix table): only 4-hex-digit labels that are prefixes of those, followed by the service suffix; subsets accepted, supersets not. Every verdict, whether answered from the cache or not, is compared with a fresh evaluation of the database in force; the database is replaced only at instants where every cache entry has expired. A freshness part lets the database change (names listed and delisted) at arbitrary virtual instants while the same name and names sharing its prefixes are re-checked over several cache lifetimes: a verdict must be explained by listings not older than the cache time (+2 s), and a clean verdict needs a request for every allowed prefix within that time. A concurrent part (go test -race, virtual latency) lets 3-18 goroutines check distinct names on one Checker at once, among them groups of different names that produce the same question (same 2-byte prefixes for name and parents) of which only some are listed, with fresh, tiny and warm caches; every verdict must equal the database and every request must consist of allowed prefixes of a name under check. Another part repeats the request and verdict oracle through DNSFilter.CheckHost with host names in mixed letter case and the safe-browsing and parental-control services enabled or disabled per query. Exploration: held on the cases observed, which the evidence counts.",
    "note": "Trusted: crypto/sha256, and golang.org/x/net/publicsuffix only to discard generated names on which the fixed table and the list disagree. Not asserted: what an upstream error yields; whether the ICANN suffix below a private suffix (io of x.github.io) or a bare public suffix is hashed (counted as unspecified).",
    "technique": "runtime monitor: reference-model oracle over seeded histories on virtual time (exported API + in-memory upstream)",
}
