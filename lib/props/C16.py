SPEC = {
    "level": "exploration",
    "parts": [
        {"name": "extract", "pkg": "./internal/dnsforward/", "run": "^TestVerifC16$",
         "harness": ["dnsforward/c16_*.go"], "timeout_quick": 600, "timeout_thorough": 3000},
        {"name": "handoff", "pkg": "./internal/dnsforward/", "run": "^TestVerifC16Handoff$",
         "harness": ["dnsforward/c16_*.go"], "timeout_quick": 600, "timeout_thorough": 3000},
    ],
}

CLAIM = {
    "text": "Part extract: seeded sweep of crafted proxy.DNSContext values over the grammar (configured server name x client server name x label x DoH path/request target x Host header x strict check x six protocols). Every context is pushed through the exported pre-request hook HandleBefore (observing the SERVFAIL error and the request-id -> ClientID cache entry) and through clientIDFromDNSContext; an independent implication oracle (own RFC 1123 label check, own literal-form tests, own path normal forms) decides: well-formed source => exactly lower(label); invalid label in a well-positioned source => failure; strict and name outside the configured domain => failure; plain/DNSCrypt => no ClientID whatever else is attached; any other id => unsound. A calibration subset lets real DoT and DoQ listeners and real TLS/plain HTTP servers (self-signed certificate, ServeMux with AdGuard Home's two DoH patterns) deliver contexts and shows that the fields the extraction reads and the outcome equal those of the crafted context of the same inputs. Part handoff: a running server is driven over real UDP/TCP/DoT/DoH sockets through rounds of id-carrying requests, Reconfigure and requests without id; the ClientID attached at the processing stage is read from the query-log record of each request. Exploration: held on the cases observed, which the evidence counts.",
    "note": "Unspecified and therefore only counted: domain part differing in letter case or trailing dot, sub-sub-domains and empty labels (error or no id, never an id), no configured server name, paths that reach /dns-query/<id> only after normalisation, differing ids in path and server name, plain-HTTP DoH where the Host header stands in for the server name (only port-insensitivity and soundness are asserted). Trusted: Go's crypto/tls, net/http, net/url and quic-go as transports in the calibration.",
    "technique": "runtime monitor: implication oracle over seeded crafted contexts at the HandleBefore boundary, calibrated against real TLS/QUIC/HTTP transports; history monitor at the query log over real sockets",
}
