SPEC = {
    "level": "exploration",
    "parts": [
        {"name": "server", "pkg": "./internal/dnsforward/", "run": "^TestVerifC01$",
         "harness": ["dnsforward/common_*.go", "dnsforward/c01_*.go"], "race": True,
         "timeout_quick": 900, "timeout_thorough": 3400},
        {"name": "history", "pkg": "./internal/dnsforward/", "run": "^TestVerifC01History$",
         "harness": ["dnsforward/common_*.go", "dnsforward/c01_*.go"], "race": True,
         "timeout_quick": 900, "timeout_thorough": 3400},
        # Refresh rounds of the update timer's kind with failing servers: the
        # decisions must be those of the lists as stored.
        {"name": "rounds", "pkg": "./internal/filtering/", "run": "^TestVerifC01Rounds$",
         "harness": ["filtering/c01_*.go"], "timeout_quick": 600, "timeout_thorough": 3000},
    ],
}

CLAIM = {
    "text": "(Part ROUNDS, package filtering: refresh rounds of the update timer's kind - block and allow lists together, due by age - in which the servers of one group answer 502 or drop the connection while lists of the other group change, both or neither; after each round CheckHost must decide every probe as the lists stored in the data directory do.) Thousands of generated (rule set, configuration, query) cases are sent over real UDP/TCP sockets to a real dnsforward.Server (real filtering engine fed by list files, allow list and custom rules; real client registry; all five blocking modes; protection on/off/paused/pause-over; global and per-client filtering; blocked services with always-active and always-paused schedules). A logging in-memory upstream is the only resolver, so forwarding is observed directly: blocked queries must cause no upstream call, carry no upstream marker and be the mode's synthetic answer; forwarded ones must cause exactly one call with the same question and deliver the upstream records and question intact. Expected verdicts come from an independent reference model of allow/exception/important precedence and gating. A second part drives the filter configuration through the admin-API handlers (lists added/enabled/disabled/removed, refreshes with changed content and with transfers that break in the body, custom rules, filtering on/off, persistent clients moved between identifiers) and requires, after every accepted operation, that decisions observed over real DNS follow the configuration in force within a bounded number of polls. Blocked-service schedules are also written in a zone where it is another weekday, clients are also identified by nested networks, and blocked HTTPS questions must carry the mode's rcode.",
    "note": "Trusted: urlfilter's matching of one rule against one request; miekg/dns client. Unspecified zones (counted, not asserted): rcode of blocked non-address queries, blocked services while filtering is off, IPv4-mapped host rules. Race detector is on as a by-product.",
    "technique": "runtime monitor: reference-model oracle + upstream call log over real sockets (go test -race)",
}
