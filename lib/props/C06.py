SPEC = {
    "level": "exploration",
    "parts": [
        # Table-semantics tier: filtering.DNSFilter.CheckHost against the reference model.
        {"name": "table", "pkg": "./internal/filtering/", "run": "^TestVerifC06Table$",
         "harness": ["filtering/c06_*.go"], "timeout_quick": 600, "timeout_thorough": 3000,
         "hang_is_violation": True},
        # API-history tier: the table is built and changed only through the admin
        # handlers; resolution must follow the table as listed.
        {"name": "api", "pkg": "./internal/filtering/", "run": "^TestVerifC06API$",
         "harness": ["filtering/c06_*.go"], "timeout_quick": 600, "timeout_thorough": 3000,
         "hang_is_violation": True},
        # Concurrent tier: lookups while the table is changed through the admin
        # handlers; every answer must be the answer of one table in force.
        {"name": "concurrent", "pkg": "./internal/filtering/", "run": "^TestVerifC06Concurrent$",
         "harness": ["filtering/c06_*.go"], "race": True, "timeout_quick": 420, "timeout_thorough": 3000,
         # "Evaluation always terminates": a lookup or handler call that never
         # returns ends in the test deadline, with the goroutine dump as witness.
         "hang_is_violation": True},
        # Wire tier: the DNS reply, question and upstream traffic must render the
        # product's own filtering result faithfully.
        {"name": "wire", "pkg": "./internal/dnsforward/", "run": "^TestVerifC06Wire$",
         "harness": ["dnsforward/common_*.go", "dnsforward/c01_test.go", "dnsforward/c06_*.go"], "race": True,
         "timeout_quick": 900, "timeout_thorough": 3000},
    ],
}

CLAIM = {
    "text": "Four parts. WIRE: for generated tables every name x {A, AAAA, TXT} is sent over UDP/TCP to a real dnsforward.Server with a logging in-memory upstream, and the reply is compared with the rendering of the product's own filtering result for that query (values and the CNAME record in the answer, upstream never asked for a name the table answers, upstream asked exactly once for the canonical name when a CNAME leaves the table, original question restored, empty NOERROR for matched-without-value). TABLE: Seeded sweep of rewrite tables (1-12 entries over a 20-name tree in two domains: exact and 1-4-label wildcard patterns, A/AAAA values, CNAMEs inside/outside the table, 'A'/'AAAA' and self-reference exceptions, chains, cycles, duplicates, upper-case patterns, and in 30 % of the tables canonical names / exception answers spelled with upper-case letters, incl. whole chains and cycles in capitals) plus the documented examples. Each table is loaded through filtering.New in 3 entry orders and every name x {A, AAAA, TXT|HTTPS} is asked through the exported CheckHost. Asserted: every call returns (20 s watchdog per batch = non-termination), every returned address is a value of an entry matching the final name in the requested family, and outside the unspecified zones the result is one the reference model (DESIGN A.3: CNAME kind first, exact over wildcard, most specific wildcard, exceptions, chain following) accepts; where no entries of equal rank compete the result must not depend on the entry order. A third part (api) builds and mutates the table only through the rewrite admin handlers (add/delete/update, incl. updates that change the kind of the entry) and requires after every operation that the listed table equals the model table, that resolution follows the table as listed, and that a fresh instance built from the listed table answers identically. A fourth part (concurrent, with the race detector) runs lookups from 4 goroutines while a controller changes the table through the same handlers (scripted alternations and random histories); counters of started and finished handler calls bound the tables that can have been in force during a lookup, and its answer must be the answer a fresh instance gives for one of them. All name universes contain names glued to a wildcard's apex without a label boundary (xexample.org for *.example.org) and the apexes themselves, as queries and as CNAME targets; the wire part additionally checks, with its own matcher, that a name no pattern matches is not rewritten and that served addresses belong to lines matching the final name. Every 25th table / API history is one loop-free CNAME chain of 1-40 hops (lengths around 8, 16, 32), with wildcard hops, ending in a value, an exception, outside the table or in a cycle, queried at every distance from its end; the wire part serves such chains too and requires the reply to reach the end of the chain. Every table of the table part and every step of the api part is also restarted the product's own way (WriteDiskConfig, YAML with the struct's tags, filtering.New) and must resolve every probe as before. Address values also come in unusual spellings (IPv4-mapped and IPv4-compatible IPv6, expanded/upper-case IPv6, zero and loopback addresses): an entry's family is that of the literal as written and the value served is that address. A share of the tables, API histories and wire servers runs on a filter that also has a hosts container (built as home does, from generated hosts files in the scratch directory) in which names of the table appear with other addresses and the other family: the answer for a name the table answers must be unchanged." " Exploration: held on the cases observed, which the evidence counts.",
    "note": "Unspecified zones (only termination and soundness asserted, hits counted): CNAME cycles' outcome, CNAME whose target carries an exception, wildcard CNAME pointing into its own pattern, most specific pattern holding only values of the other family. Counted but constrained: several CNAMEs / several values of equal rank (any of them), duplicates (multiplicity). A walk that meets a CNAME answer with upper-case letters, or 'A'/'AAAA' in another spelling, is also an unspecified zone (statement silent on the case of answers; soundness there compares names case-insensitively). The wire level (CNAME record, restored question, upstream contact) is the second part.",
    "technique": "runtime monitor: reference-model oracle over seeded inputs (exported API) with termination watchdog",
}
