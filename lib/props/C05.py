SPEC = {
    "level": "exploration",
    "parts": [
        {"name": "system", "pkg": "./internal/verifsys/", "run": "^TestVerifC05$",
         "harness": ["verifsys/doc.go", "verifsys/common_*.go", "verifsys/c05_*.go"],
         "binary": {"race": True}, "compile_then_run": True,
         "timeout_quick": 600, "timeout_thorough": 3000, "hang_is_violation": False},
        {"name": "dhcpd", "pkg": "./internal/dhcpd/", "run": "^TestVerifC05Dhcpd$",
         "harness": ["dhcpd/c05_*.go"], "race": True,
         "timeout_quick": 600, "timeout_thorough": 3000},
        # Safe-search filter: CheckHost with stale settings snapshots x Update.
        {"name": "safesearch", "pkg": "./internal/filtering/safesearch/", "run": "^TestVerifC05SafeSearch$",
         "harness": ["filtering__safesearch/c05_*.go"], "race": True,
         "timeout_quick": 600, "timeout_thorough": 3000},
        # The statistics module's concurrent workload (shared with C09): updates x
        # API reads x back-to-back hourly roll-overs; a round that does not end is
        # a violation here (stall:stats-round).
        {"name": "stats", "pkg": "./internal/stats/", "run": "^TestVerifC09Concurrent$",
         "harness": ["stats/c09_model_test.go", "stats/c09_conc_test.go"],
         "race": True, "modfile": True, "env": {"VERIF_STATS_PROP": "C05"},
         "timeout_quick": 900, "timeout_thorough": 3000},
        # The client registry's concurrent workload (shared with C04): add / update
        # / remove x Find / FindLoose / ApplyClientFiltering incl. the DHCP-lease
        # fallback, under the race detector.
        {"name": "clients", "pkg": "./internal/client/", "run": "^TestVerifC04Concurrent$",
         "harness": ["client/c04_registry_test.go", "client/c04_concurrent_test.go"],
         "race": True, "modfile": True, "env": {"VERIF_CLIENT_PROP": "C05", "VERIF_CLIENT_PART": "clients"},
         "timeout_quick": 600, "timeout_thorough": 3000},
    ],
}

CLAIM = {
    "text": "The real binary, built with the Go race detector from the working tree, serves DNS over UDP/TCP to 12 client goroutines while one goroutine per admin-API family (clients, access lists, custom rules, filter lists + refresh against a local list server, rewrites, blocked services, protection pause of 20-50 ms, safe search, parental/safe-browsing toggles, query-log and statistics configuration/clear, DHCP static leases) mutates the live configuration through real HTTP calls; latency is injected at the mock upstream and list server and GOMAXPROCS varies by seed. Monitors: the server's race-detector log (each distinct pair of racing product functions is a violation), panic/fatal scan and exit status, per-query well-formedness of every reply, bounded-progress probe (20 DNS probes + 5 admin GETs within 30 s) after quiescence, clean shutdown. Package-level -race stress monitors cover paths the binary does not reach here: the safe-search filter (CheckHost x Update), the client registry (lookups ending in the DHCP fallback x add/update/remove; the C04 concurrent workload), the DHCP server (v4 messages x v4/v6 static leases x readers x lease-file observer; and rounds of 2-4 simultaneous DISCOVER+REQUEST copies of one new client, after which table, Leases() and leases.json must hold one lease per client and per address and the pool must still serve a full pool of clients) and the statistics module (updates x API reads x back-to-back hourly roll-overs through the real flush; a round that does not finish is a stall). Further phases of the binary tier: the periodic list refresh downloading while admin operations rebuild the engines and add lists; the query-log file replaced by a FIFO nobody reads; one upstream exchange pending for 8 s while an admin operation takes the server lock (other requests must be served meanwhile); hundreds of requests of unseen clients behind a trusted proxy while client-name lookups take 7 s and an admin operation is issued; dashboard pollers on the read-only endpoints throughout; lists served without a final line end at buffer-sized lengths. A stall is a stop of serving (at most 2 of 20 probes answered or no admin GET answered), not a late answer. The statistics part also runs tight-loop readers x resets x updaters with a progress watchdog; in the DHCP part a round that does not finish with goroutines waiting for a lock inside the server for a minute is a deadlock.",
    "note": "Only interleavings that actually occurred are judged; a race whose window never opened is missed. Mutating admin calls go through the product's control lock (they are real HTTP calls); operations that restart listeners (dns_config, tls/configure) are excluded as the statement does not list them.",
    "technique": "Go race detector + panic/stall/well-formedness monitors over a stressed real binary",
}
