SPEC = {
    "level": "fault_enumeration",
    "parts": [
        {"name": "saves", "pkg": "./internal/verifsys/", "run": "^TestVerifC14$",
         "harness": ["verifsys/doc.go", "verifsys/common_*.go", "verifsys/c05_*.go", "verifsys/c14_*.go"],
         "binary": {"race": False}, "compile_then_run": True,
         "timeout_quick": 900, "timeout_thorough": 3400},
        {"name": "dhcpd", "pkg": "./internal/dhcpd/", "run": "^TestVerifC05Dhcpd$",
         "harness": ["dhcpd/c05_*.go"], "env": {"VERIF_DHCPD_PROP": "C14"},
         "timeout_quick": 600, "timeout_thorough": 3000},
        # The self-update is one more writer next to the configuration file.
        {"name": "updater", "pkg": "./internal/updater/", "run": "^TestVerifC14Updater$",
         "harness": ["updater/c14_*.go"], "timeout_quick": 600, "timeout_thorough": 3000},
    ],
}

CLAIM = {
    "text": "(Part UPDATER: the self-update is run against a release server of the test process to its end and into failures at every stage - package missing / corrupt / truncated, executable on another file system, a directory, missing - while the configuration file next to the executable is read in a loop and compared before/after by inode, times, size and bytes: it must be complete at every read and never be written in place.) Every file-mutating system call of the real binary is recorded with strace -f -y while configuration saves (up to 20k/120k custom rules, i.e. multi-megabyte YAML), lease-database saves and filter-file saves (list bodies from empty to tens of megabytes, block and allow lists) are caused through the admin API, including the start-up write paths (schema upgrade rewrite of an old configuration, migration of a legacy leases.db). An offline checker replays the log against a small file-system model: each syscall boundary is a crash point at which the three kinds of destination path must hold a complete old or new version - no open-for-write, write, truncate or unlink of a destination, and a rename onto a destination only from a temporary file whose writes were fsynced and which is closed; the number of atomic replacements seen must cover the saves caused. A concurrent reader validates every snapshot of the three paths, and a SIGKILL campaign kills the server during save storms at random instants, validates the files left behind and restarts from them. A write-fault phase runs the binary under a file-size limit so that writes fail half-way (destinations must stay complete), destinations that are renamed away or missing for a reader are reported, downloads of one list are made to overlap (a set_url call lands inside the trickling background refresh of the same list after a restart with aged files; traced), list bodies of 17 MiB (thorough: up to 66 MiB) must be stored completely, and a package-level part stresses the DHCP lease file with concurrent v4/v6 stores while an observer validates every snapshot of leases.json (the same part also runs rounds of simultaneous DISCOVERs of one new client and checks that the lease file keeps one lease per client and per address). Added later: a data directory on a full tmpfs; restarts on crash leftovers (complete files plus newer pending files that are empty, half written or garbage) and on a lease database holding a lease the server refuses; SIGTERM while a changed list trickles in through the periodic or a forced refresh; a list server that honours byte ranges and republishes the list between a broken transfer and the next request; and a part that runs the self-update against a release server of the test process (success and failures at every stage) while the configuration file next to the executable is read in a loop and compared by inode and times.",
    "note": "Crash points are syscall boundaries of the traced process; torn writes inside one write() and directory-entry durability (no fsync of the directory) are outside what a syscall trace can decide. Trusted: strace's decoding (-y path annotation).",
    "technique": "offline checker over a strace event log (crash point = syscall boundary) + concurrent reader + SIGKILL campaign on the real binary",
}
