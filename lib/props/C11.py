SPEC = {
    "level": "exploration",
    "parts": [
        {"name": "routes", "pkg": "./internal/verifsys/", "run": "^TestVerifC11$",
         "harness": ["verifsys/doc.go", "verifsys/common_*.go", "verifsys/c05_*.go", "verifsys/c11_*.go", "home/routes.go"],
         "binary": {"race": False}, "compile_then_run": True,
         "timeout_quick": 900, "timeout_thorough": 3000},
        # A logged-out cookie must stay refused although a request with it was
        # in flight during the logout (harness shared with C12).
        {"name": "logoutrace", "pkg": "./internal/home/", "run": "^TestVerifC12LogoutRace$",
         "harness": ["home/c12_logoutrace_test.go"], "race": True,
         "timeout_quick": 600, "timeout_thorough": 1800, "env": {"VERIF_AUTH_PROP": "C11"}},
        # Expired / unknown / logged-out cookies while sessions.db cannot be
        # written, and bursts of concurrent Basic-auth requests with right and
        # wrong passwords (real time).
        {"name": "authfault", "pkg": "./internal/home/", "run": "^TestVerifC11AuthFault$",
         "harness": ["home/c11_authfault_test.go"], "race": True,
         "timeout_quick": 600, "timeout_thorough": 1800},
    ],
}

CLAIM = {
    "text": "The route table is taken from the running program: a verif-tagged overlay file walks the live admin ServeMux by reflection and dumps every registered pattern (cross-checked against every HTTPRegister/httpRegister call and '/control/...' literal in the source; a registered path missing from the dump makes the run inconclusive). For every dumped route the monitor sends raw HTTP/1.1 requests (request target exactly as spelled) over all methods x content types x bodies x credential shapes (none, unknown/malformed/empty/expired/logged-out cookie, token with suffix, wrong/empty/unknown basic, bad cookie + right basic, valid cookie, valid basic) and path spellings that normalise to the route (doubled slash, dot and dot-dot segments, encoded dot-dot, /login.html/.. and /assets/.. prefixes, CONNECT without path cleaning). Oracle: without valid credentials a non-public route answers only 403 (302 to login.html for / and /index.html; the mux's own redirect or 400 for non-canonical spellings) and an authenticated state digest (15 GET endpoints + config file + lease file) is unchanged after the burst; with valid credentials nothing is 403, a wrong method is 405 and a non-JSON body on a mutating endpoint is 415. Further phases: an instance whose administrator is created at run time through the first-run API (swept without a restart), login attempts with unknown users / empty passwords, and an instance started on an unopenable sessions.db (either the start fails or every protected route still refuses). A package-level part races authenticated requests (taking the once-a-day expiry prolongation) against the logout of the same cookie: after both returned the cookie must be refused, also after a restart; the same part also races the logout against logins, another session's logout and requests with expired cookies. Another package-level part (authfault) presents expired (expiry edited or TTL 1 s really elapsed), never-issued and logged-out cookies through the middleware while write transactions on sessions.db fail (sessions bucket deleted, bbolt handle closed, database read-only; healthy database as the control) - all must be refused on every presentation - and releases bursts of 2-8 concurrent Basic-auth requests for one login with right, wrong and empty passwords and unknown logins: every request is judged by its own credentials whatever overlaps. Further phases of the binary tier: GL-inet mode with Admin-Token values naming no fresh token file; accounts whose stored password is not a checkable bcrypt hash; an expired session presented after a restart while younger sessions are stored; requests without valid credentials on a kept-alive connection that carried an authenticated request; wrong Basic credentials from an address the login limiter has blocked; logins with right credentials but another method or content type.",
    "note": "Expired cookie is produced by running the binary once with session_ttl 2s. Mutating handlers are never run with valid credentials and a well-formed request. Trusted: net/http request parsing on the client side of the raw socket.",
    "technique": "runtime monitor: live route dump (reflection hook) + exhaustive request-shape sweep against the real binary",
}
