#!/usr/bin/env python3
"""Regenerates DESIGN.md section 10 (table of seeded changes) and
seeded/INDEX.md from seeded/*/meta.json and run.log."""
import glob, json, os, re, subprocess
V = "/verif"
full = subprocess.check_output(["python3", V + "/lib/seedtable.py"]).decode()
compact = subprocess.check_output(["python3", V + "/lib/seedtable.py", "--compact"]).decode()
open(V + "/seeded/INDEX.md", "w").write("# Seeded changes\n\nOne row per change under `/verif/seeded/<id>-<variant>/` (patch.diff, the demonstration, meta.json, run.log).\n\n" + full)
metas = [json.load(open(f)) for f in sorted(glob.glob(V + "/seeded/*/meta.json"))]
n = len(metas)
excl = [os.path.basename(os.path.dirname(f)) for f in sorted(glob.glob(V + "/seeded/*/meta.json")) if json.load(open(f)).get("excluded")]
missed = [os.path.basename(os.path.dirname(f)) for f in sorted(glob.glob(V + "/seeded/*/meta.json")) if not json.load(open(f)).get("detected") and not json.load(open(f)).get("excluded")]
head = """## 10. Seeded changes (`/verif/seeded/<id>-<variant>/`) and which check catches them

Independent sub-agents, given only the property text and a scratch worktree (nothing from /verif),
wrote changes that compile, pass the pinned suite and break the property only under something
specific (an interleaving, a fault at one point, a long history, an unusual input or configuration,
two sites that each look fine alone).  Eleven waves of two changes per property were produced (a/b
to u/v); every wave was told what the earlier ones had done and asked for different mechanisms.  Each change was confirmed with `lib/seedcheck.sh` (fresh worktree of `/repo`: the
demonstration passes without and fails with the change, `go build`, the full suite, then
`VERIF_REPO=<worktree> ./check <id> quick`); `meta.json` records what was run and the result,
`run.log` the violation keys.  %d changes are stored; %s.  Most changes of the later waves escaped the
checks as they were at that moment; every miss led to an extension of the monitors (section 8),
after which the change was re-run (`RECHECK=1`).  A change that could not be applied to the
current tree because a later fix rewrote the same lines is verified against the parent of that fix
(`SEED_BASE`, noted in its meta.json).  The first violation key of the quick tier is shown; the full
text of every change is in `seeded/INDEX.md`.

""" % (n, ("all are detected by the quick tier" if not missed else "not detected: " + ", ".join(missed)) + (" except %s, which can only show when two mutating admin requests overlap - the program serialises those, so they are recorded as unreachable, not as misses" % " and ".join(excl) if excl else ""))
s = open(V + "/DESIGN.md").read()
a = s.index("## 10. Seeded changes")
b = s.index("---------------------------------------------------------------------------------------------", a)
s = s[:a] + head + compact + "\n\n" + s[b:]
open(V + "/DESIGN.md", "w").write(s)
print("section 10 rewritten:", n, "changes,", len(missed), "missed", missed)
