#!/usr/bin/env python3
"""Regenerates /verif/MANIFEST.json from lib/registry.py and lib/claims.py."""
import json
import os
import sys

HERE = os.path.dirname(os.path.abspath(__file__))
sys.path.insert(0, HERE)
from registry import REGISTRY  # noqa: E402
from claims import CLAIMS, NOT_APPLICABLE, HOOK_COMMITS  # noqa: E402

VERIF = os.path.dirname(HERE)

props = [json.loads(l)["id"] for l in open(os.path.join(VERIF, "properties.jsonl"))]
claimed = set(open(os.path.join(HERE, "claimed.txt")).read().split())
checks = []
for pid in props:
    if pid not in REGISTRY or pid not in CLAIMS or pid not in claimed:
        continue
    c = CLAIMS[pid]
    spec = REGISTRY[pid]
    checks.append({
        "property_id": pid,
        "quick_cmd": "./check %s quick" % pid,
        "thorough_cmd": "./check %s thorough" % pid,
        "evidence_file": "/verif/evidence/%s.json" % pid,
        "replay_cmd_template": "./check %s quick --replay {path}" % pid,
        "engine": "monitors",
        "level_claimed": {
            "category": spec.get("level", "exploration"),
            "text": c["text"],
            "design_ref": c.get("design_ref", "DESIGN.md section 4, " + pid),
        },
        "level_note": c["note"],
        "technique": c["technique"],
    })
na = [{"property_id": p, "reason": NOT_APPLICABLE.get(p, "monitor not built yet")}
      for p in props if p not in [c["property_id"] for c in checks]]
manifest = {
    "version": 1,
    "setup_cmd": "./setup.sh",
    "hooks": {
        "guard": "verif",
        "enable": "go test/build -tags verif -overlay=<generated overlay.json>: monitors are injected from /verif/harness through the Go build overlay; /repo itself carries no hook code",
        "baseline_off_cmd": "cd /repo && GOFLAGS=-mod=mod GOPROXY=off go test -json -vet=off -count=1 -timeout 25m ./...",
        "source_commits": HOOK_COMMITS,
        "add_only": True,
    },
    "engines": [{
        "name": "monitors",
        "path": "/verif/check",
        "serves_properties": [c["property_id"] for c in checks],
        "kind_free_text": "runtime monitoring: seeded workloads drive the real packages / binary built from /repo's working tree (Go race detector, virtual time via testing/synctest, strace event logs); deterministic oracles over recorded events decide",
    }],
    "checks": checks,
    "not_applicable": na,
    "notes": "exit 0 = held on what was observed, 1 = VIOLATION, 2 = INCONCLUSIVE (never folded into the others). Known findings: /verif/known_findings.json.",
}
with open(os.path.join(VERIF, "MANIFEST.json"), "w") as fh:
    json.dump(manifest, fh, indent=1)
    fh.write("\n")
print("checks:", [c["property_id"] for c in checks])
print("not_applicable:", [n["property_id"] for n in na])
