#!/usr/bin/env python3
"""Writes red-team prompts for a further wave of seeded changes.

usage: mkseedprompt.py <wave-number> <v1> <v2> [ids...]
The template is the wave-3 prompt in /tmp/seed/prompts (scratch; regenerated
from an older prompt when missing); the list of earlier changes comes from
/verif/seeded/<id>-*/meta.json.  The prompt contains nothing else from /verif.
"""
import glob, json, os, re, sys
wave, v1, v2 = sys.argv[1], sys.argv[2], sys.argv[3]
ids = sys.argv[4:] or ["C%02d" % i for i in range(1, 21)]
for pid in ids:
    tpl = open("/tmp/seed/prompts/%s-wave3.txt" % pid).read()
    a = tpl.index(" 4. Earlier rounds already produced")
    b = tpl.index(" 5. The two changes should differ")
    head = tpl[a:tpl.index("\n- ", a) + 1]
    items = []
    for d in sorted(glob.glob("/verif/seeded/%s-*/" % pid)):
        m = json.load(open(d + "meta.json"))
        s = re.sub(r"\s+", " ", str(m.get("summary", "")))[:420]
        n = re.sub(r"\s+", " ", str(m.get("needs_to_manifest", "")))[:260]
        items.append("- %s (needs: %s)\n" % (s, n))
    out = tpl[:a] + head + "".join(items) + tpl[b:]
    out = out.replace('TWO independent changes ("e" and "f")', 'TWO independent changes ("%s" and "%s")' % (v1, v2))
    out = out.replace("/tmp/seed/%s-e HEAD` and `/tmp/seed/%s-f`" % (pid, pid), "/tmp/seed/%s-%s HEAD` and `/tmp/seed/%s-%s`" % (pid, v1, pid, v2))
    out = out.replace("(for x in e, f)", "(for x in %s, %s)" % (v1, v2))
    assert '"e"' not in out and "-e HEAD" not in out, pid
    open("/tmp/seed/prompts/%s-wave%s.txt" % (pid, wave), "w").write(out)
    print(pid, len(items), "earlier changes listed")
