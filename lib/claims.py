"""Manifest-level constants; per-property claims live in lib/props/<id>.py."""
from registry import CLAIMS  # noqa: F401

HOOK_COMMITS = []

# Reasons for properties that are not claimed (none by design; a property
# appears here only while its monitor is not built).
NOT_APPLICABLE = {}
