"""Parses Go race detector output into de-duplicated violations.

Key of a report: the sorted pair of the innermost product frames
(github.com/AdguardTeam/AdGuardHome/..., harness frames excluded) of the two
conflicting accesses, line numbers stripped.  Reports whose both stacks lie
entirely in harness code are a defect of the monitor and are reported as
inconclusive by the caller (key prefix "harness-race:")."""
import re

FRAME_RE = re.compile(r"^\s+(\S+)\(.*\)\s*$|^\s+(\S+)\(\)\s*$")
PROD = "github.com/AdguardTeam/AdGuardHome/"


def _split_blocks(text):
    blocks = []
    cur = None
    for line in text.split("\n"):
        if line.startswith("WARNING: DATA RACE"):
            cur = [line]
            continue
        if cur is not None:
            if line.startswith("=================="):
                blocks.append(cur)
                cur = None
            else:
                cur.append(line)
    if cur:
        blocks.append(cur)
    return blocks


def _stacks(block):
    """Returns list of (header, [function names])."""
    stacks = []
    cur = None
    for line in block[1:]:
        if not line.strip():
            cur = None
            continue
        if not line.startswith(" ") or re.match(r"^(Read|Write|Previous|Goroutine|Atomic)", line.strip()) and not line.startswith("  "):
            cur = (line.strip(), [])
            stacks.append(cur)
            continue
        if cur is None:
            continue
        s = line.strip()
        if s.startswith("/") or s.startswith("<"):
            continue  # file:line
        if s.endswith(")") and "(" in s:
            cur[1].append(s[:s.rindex("(")])
    return stacks


def _is_harness(fn):
    low = fn.lower()
    return "verif" in low or ".TestVerif" in fn


def _inner_product(frames):
    for fn in frames:
        if fn.startswith(PROD) and not _is_harness(fn):
            return fn[len(PROD):].replace("internal/", "")
    return None


def parse_race_text(text):
    out = {}
    for b in _split_blocks(text):
        st = _stacks(b)
        acc = [s for s in st if re.match(r"^(Read|Write|Previous|Atomic)", s[0])]
        if len(acc) < 2:
            continue
        a, c = _inner_product(acc[0][1]), _inner_product(acc[1][1])
        if a is None and c is None:
            key = "harness-race:" + "|".join(sorted([(acc[0][1] or ["?"])[0], (acc[1][1] or ["?"])[0]]))
        else:
            key = "race:" + "|".join(sorted([a or "(non-product)", c or "(non-product)"]))
        if key not in out:
            out[key] = {"key": key, "what": "data race between " + key[5:].replace("|", " and "),
                        "witness": {"report": "\n".join(b)[:5000], "count": 0}}
        out[key]["witness"]["count"] += 1
    return out


def parse_race_logs(paths, stdout_text=""):
    text = stdout_text
    for p in paths:
        try:
            text += "\n" + open(p, errors="replace").read()
        except OSError:
            pass
    return list(parse_race_text(text).values())
