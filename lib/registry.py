"""Which monitors decide which property.  Each property has a file
lib/props/<id>.py defining SPEC (level, parts) and CLAIM (manifest texts).

A part is one monitor process.  Keys of a gotest part:
  name               unique within the property; the harness must call
                     verifkit.New(<id>, <name>, rule) so that the report file
                     is <id>.<name>.json
  pkg                package path relative to /repo (e.g. ./internal/schedule/)
  run                -run regexp
  harness            list of globs relative to /verif/harness naming the files
                     overlaid into /repo (verifkit is always included)
  race, synctest, modfile (porcupine)   booleans
  timeout_quick / timeout_thorough      seconds (go test -timeout)
  crash_is_violation (default True), hang_is_violation (default False)
  thorough_only      skip in the quick tier
  env                extra environment
"""
import importlib
import os
import sys

_here = os.path.dirname(os.path.abspath(__file__))
sys.path.insert(0, os.path.join(_here, "props"))

REGISTRY = {}
CLAIMS = {}
for _f in sorted(os.listdir(os.path.join(_here, "props"))):
    if not _f.endswith(".py") or not _f.startswith("C"):
        continue
    _m = importlib.import_module(_f[:-3])
    REGISTRY[_f[:-3]] = _m.SPEC
    CLAIMS[_f[:-3]] = _m.CLAIM
