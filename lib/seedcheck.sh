#!/bin/bash
# usage: seedcheck.sh <PROP> <variant> [tier]
# Verifies a red-team change delivered in /tmp/seed/out/<PROP>-<variant>/ in a
# scratch worktree (build, full suite, demo fails with / passes without), then
# runs the property's check against the changed tree, and stores everything in
# /verif/seeded/<PROP>-<variant>/.
# Environment: SEED_BASE=<commit> builds the worktree from that commit of /repo
# instead of HEAD (for a change written before a later fix touched the same
# lines); RECHECK=1 only re-runs the check (build, demo and suite results of the
# stored meta.json are kept).
set -u
P=$1; V=$2; TIER=${3:-quick}
SRC=/tmp/seed/out/$P-$V
[ -f $SRC/patch.diff ] || SRC=/verif/seeded/$P-$V
BASE=${SEED_BASE:-HEAD}
RECHECK=${RECHECK:-0}
WT=/tmp/wt/seedv-$P-$V
export GOFLAGS=-mod=mod GOPROXY=off
[ -f $SRC/patch.diff ] || { echo "no patch in $SRC"; exit 3; }
git -C /repo worktree remove --force $WT >/dev/null 2>&1
git -C /repo worktree add --detach $WT $BASE >/dev/null 2>&1 || exit 3
cd $WT
DEMO_PATH=$(python3 -c "import json;print(json.load(open('$SRC/meta.json')).get('demo_path',''))")
DEMO_CMD=$(python3 -c "import json;print(json.load(open('$SRC/meta.json')).get('demo_cmd',''))")
DEMO_FILE=$(ls $SRC | grep "\.go$" | head -1)
res() { echo "$1" | tee -a $WT/.seedlog; }
: > $WT/.seedlog
# demo without the change
rel=${DEMO_PATH#/tmp/seed/$P-$V/}; rel=${rel#$WT/}
case "$rel" in /*) rel=$(echo "$rel" | sed "s|^.*/internal/|internal/|");; esac
[ -d "$rel" ] && rel=$rel/$DEMO_FILE
mkdir -p $(dirname $rel); cp $SRC/$DEMO_FILE $rel
cmd=$(echo "$DEMO_CMD" | sed "s|/tmp/seed/$P-$V|$WT|g; s|^cd [^;&]*[;&]* *||; s|   *(.*$||; s|  *# .*$||")
if [ "$RECHECK" = 1 ]; then
  rm -f $rel
  git apply $SRC/patch.diff || { res "PATCH DOES NOT APPLY to $BASE"; git -C /repo worktree remove --force $WT; exit 3; }
  go build ./... > $WT/.build.log 2>&1; res "build with change: rc=$?"
  rc_clean=-1; rc_mut=-1; rc_suite=-1
else
( eval "$cmd" ) > $WT/.demo_clean.log 2>&1; rc_clean=$?
res "demo on unchanged tree: rc=$rc_clean (expect 0)"
git apply $SRC/patch.diff || { res "PATCH DOES NOT APPLY to $BASE"; git -C /repo worktree remove --force $WT; exit 3; }
go build ./... > $WT/.build.log 2>&1; res "build with change: rc=$?"
( eval "$cmd" ) > $WT/.demo_mut.log 2>&1; rc_mut=$?
res "demo with change: rc=$rc_mut (expect non-zero)"
rm -f $rel
go test -count=1 -vet=off ./... > $WT/.suite.log 2>&1; rc_suite=$?
res "suite with change: rc=$rc_suite (expect 0) $(grep -c '^FAIL' $WT/.suite.log) FAIL lines"
fi
cd /verif
VERIF_REPO=$WT ./check $P $TIER > $WT/.check.log 2>&1; rc_check=$?
res "check $P $TIER against change: rc=$rc_check ($(grep -c '^VIOLATION' $WT/.check.log) VIOLATION lines)"
grep "witness key" $WT/.check.log | head -5 | cut -c1-250 | tee -a $WT/.seedlog
grep "INCONCLUSIVE" $WT/.check.log | head -3 | cut -c1-250 | tee -a $WT/.seedlog
D=/verif/seeded/$P-$V; mkdir -p $D
[ "$SRC" = "$D" ] || { cp $SRC/patch.diff $D/; cp $SRC/$DEMO_FILE $D/; }
BASEH=$(git -C /repo rev-parse --short $BASE)
python3 - "$SRC/meta.json" "$D/meta.json" "$rc_clean" "$rc_mut" "$rc_suite" "$rc_check" "$TIER" "$rel" "$cmd" "$BASEH" <<'PY'
import json,sys
src,dst,rc_clean,rc_mut,rc_suite,rc_check,tier,rel,cmd,base=sys.argv[1:11]
m=json.load(open(src))
if int(rc_clean)==-1 and 'confirmed' in m:
    m['confirmed']['check_rc_with_change']=int(rc_check); m['confirmed']['check_tier']=tier; m['confirmed']['rechecked_against']=base
    m['detected']= int(rc_check)==1
    json.dump(m,open(dst,'w'),indent=1)
    sys.exit(0)
m['confirmed']={'base':base,'demo_rc_unchanged_tree':int(rc_clean),'demo_rc_with_change':int(rc_mut),'suite_rc_with_change':int(rc_suite),
  'check_rc_with_change':int(rc_check),'check_tier':tier,'demo_placed_at':rel,'demo_cmd_used':cmd,
  'how':'lib/seedcheck.sh: fresh worktree of /repo HEAD; demo run before and after git apply patch.diff; go build; full suite; VERIF_REPO=<worktree> ./check'}
m['detected']= int(rc_check)==1
json.dump(m,open(dst,'w'),indent=1)
PY
if [ "$RECHECK" = 1 ] && [ -f $D/run.log ]; then { grep -v "^check \|witness key\|INCONCLUSIVE\|^build with change" $D/run.log; cat $WT/.seedlog; } > $D/run.log.new; mv $D/run.log.new $D/run.log; else cp $WT/.seedlog $D/run.log; fi
git -C /repo worktree remove --force $WT
